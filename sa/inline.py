"""Statement-level inlining of private helpers, for rules that reason about what ONE function does.

A maintainer who extracts a block of a long function into a private worker (or the reverse) does not change behaviour; a rule that reads
the body of the long function must see the same thing before and after.  `inlined(repo, fi)` returns a copy of the function's AST in which
every statement of the form

    helper(a, b)            T = helper(a, b)            T1, T2 = helper(a, b)            return helper(a, b)

whose callee is a plain module-level function of the package (resolved by `Repo.find_funcs`: same module, imported, or moved), is not a
generator, has no decorators, takes only named parameters and returns at most once, as its last statement, is replaced by the callee's
body.  Parameters that the callee never rebinds and that receive a plain name or a literal are substituted; the others are bound by a
prelude assignment.  The callee's own locals get a unique suffix so that they cannot capture names of the caller.  Nothing is evaluated.
"""
from __future__ import annotations

import ast
import copy

from .model import walk_no_nested


def _stored_names(fn) -> set[str]:
    out = set()
    for x in ast.walk(fn):
        if isinstance(x, ast.Name) and isinstance(x.ctx, (ast.Store, ast.Del)):
            out.add(x.id)
        elif isinstance(x, (ast.FunctionDef, ast.AsyncFunctionDef, ast.ClassDef)) and x is not fn:
            out.add(x.name)
    return out


def _inlinable(g) -> bool:
    n = g.node
    if not isinstance(n, ast.FunctionDef) or n.decorator_list or '.' in g.qualname:
        return False
    a = n.args
    if a.vararg or a.kwarg:
        return False
    for x in walk_no_nested(n):
        if isinstance(x, (ast.Yield, ast.YieldFrom, ast.Await, ast.Global, ast.Nonlocal)):
            return False
    if any(isinstance(x, (ast.FunctionDef, ast.AsyncFunctionDef, ast.ClassDef, ast.Lambda)) for x in ast.walk(n) if x is not n):
        return False
    rets = [x for x in walk_no_nested(n) if isinstance(x, ast.Return)]
    if len(rets) > 1 or (rets and rets[0] is not n.body[-1]):
        return False
    return True


class _Subst(ast.NodeTransformer):
    def __init__(self, direct, rename):
        self.direct, self.rename = direct, rename

    def visit_Name(self, node):
        if node.id in self.direct and isinstance(node.ctx, ast.Load):
            return copy.deepcopy(self.direct[node.id])
        if node.id in self.rename:
            return ast.copy_location(ast.Name(id=self.rename[node.id], ctx=node.ctx), node)
        return node


def _expand(repo, module, stmt, counter, self_name):
    """Replacement statement list for `stmt`, or None."""
    call = tgt = None
    is_return = False
    if isinstance(stmt, ast.Return) and isinstance(stmt.value, ast.Call):
        call, is_return = stmt.value, True
    elif isinstance(stmt, ast.Expr) and isinstance(stmt.value, ast.Call):
        call = stmt.value
    elif isinstance(stmt, ast.Assign) and len(stmt.targets) == 1 and isinstance(stmt.value, ast.Call):
        call, tgt = stmt.value, stmt.targets[0]
    if call is None or not isinstance(call.func, ast.Name) or call.func.id == self_name:
        return None
    if any(isinstance(a, ast.Starred) for a in call.args) or any(k.arg is None for k in call.keywords):
        return None
    cands = repo.find_funcs(module, call.func.id)
    if len(cands) != 1 or not _inlinable(cands[0]):
        return None
    g = cands[0].node
    params = list(g.args.posonlyargs) + list(g.args.args)
    kwonly = list(g.args.kwonlyargs)
    if len(call.args) > len(params):
        return None
    bound = {}
    for p, a in zip(params, call.args):
        bound[p.arg] = a
    names = {p.arg for p in params + kwonly}
    for k in call.keywords:
        if k.arg not in names or k.arg in bound:
            return None
        bound[k.arg] = k.value
    defaults = dict(zip([p.arg for p in params][len(params) - len(g.args.defaults):], g.args.defaults))
    defaults.update({p.arg: d for p, d in zip(kwonly, g.args.kw_defaults) if d is not None})
    for p in params + kwonly:
        if p.arg not in bound:
            if p.arg not in defaults:
                return None
            bound[p.arg] = defaults[p.arg]
    counter[0] += 1
    sfx = f'__i{counter[0]}'
    stored = _stored_names(g)
    direct, rename, prelude = {}, {}, []
    def simple(e):
        # a name, a literal, an attribute chain over a name, or the negation of one: substituting it for the parameter reads the same
        while isinstance(e, ast.UnaryOp) and isinstance(e.op, ast.Not):
            e = e.operand
        while isinstance(e, ast.Attribute):
            e = e.value
        return isinstance(e, (ast.Name, ast.Constant))
    for p, a in bound.items():
        if p not in stored and simple(a):
            direct[p] = a
        elif is_return and isinstance(a, ast.Name):
            # tail call: nothing of the caller runs afterwards, so a parameter the worker rebinds may simply keep the caller's name
            rename[p] = a.id
        else:
            rename[p] = p + sfx
            prelude.append(ast.copy_location(ast.Assign(targets=[ast.Name(id=p + sfx, ctx=ast.Store())], value=copy.deepcopy(a)), stmt))
    for n in stored:
        if n not in rename and n not in direct:
            rename[n] = n + sfx
    body = [copy.deepcopy(s) for s in g.body]
    if body and isinstance(body[0], ast.Expr) and isinstance(body[0].value, ast.Constant) and isinstance(body[0].value.value, str):
        body = body[1:]
    sub = _Subst(direct, rename)
    body = [sub.visit(s) for s in body]
    out = prelude
    if is_return:
        # `return helper(...)`: the worker's own trailing return becomes the caller's
        out += body
        if not (body and isinstance(body[-1], ast.Return)):
            out.append(ast.copy_location(ast.Return(value=None), stmt))
        for s_ in out:
            ast.fix_missing_locations(s_)
        return out
    if body and isinstance(body[-1], ast.Return):
        ret = body.pop()
        out += body
        if tgt is not None:
            rv = ret.value or ast.Constant(value=None)
            if isinstance(tgt, (ast.Tuple, ast.List)) and isinstance(rv, ast.Tuple) and len(tgt.elts) == len(rv.elts) and \
                    not any(isinstance(e, ast.Starred) for e in list(tgt.elts) + list(rv.elts)) and \
                    all(isinstance(e, ast.Name) for e in rv.elts) and len({e.id for e in rv.elts}) == len(rv.elts):
                # `a, b = helper()` with `return x, y` of distinct worker locals: elementwise, no aliasing between the two sides
                out += [ast.copy_location(ast.Assign(targets=[t], value=v), stmt) for t, v in zip(tgt.elts, rv.elts)]
            else:
                out.append(ast.copy_location(ast.Assign(targets=[tgt], value=rv), stmt))
        elif ret.value is not None:
            out.append(ast.copy_location(ast.Expr(value=ret.value), stmt))
    else:
        out += body
        if tgt is not None:
            out.append(ast.copy_location(ast.Assign(targets=[tgt], value=ast.Constant(value=None)), stmt))
    for s in out:
        ast.fix_missing_locations(s)
    return out or [ast.copy_location(ast.Pass(), stmt)]


def _walk_blocks(node):
    for field in ('body', 'orelse', 'finalbody'):
        blk = getattr(node, field, None)
        if isinstance(blk, list) and blk and isinstance(blk[0], ast.stmt):
            yield blk
    for h in getattr(node, 'handlers', []) or []:
        yield h.body
    for c in getattr(node, 'cases', []) or []:
        yield c.body


def inlined(repo, fi, depth: int = 2):
    """Deep copy of `fi.node` with helper calls at statement level expanded `depth` times.  Returns (node, number of expansions)."""
    fn = copy.deepcopy(fi.node)
    if isinstance(fn, ast.Lambda):
        return fn, 0
    counter = [0]
    for _ in range(depth):
        changed = False
        work = [fn]
        while work:
            node = work.pop()
            for blk in _walk_blocks(node):
                i = 0
                while i < len(blk):
                    st = blk[i]
                    rep = None if isinstance(st, (ast.FunctionDef, ast.AsyncFunctionDef, ast.ClassDef)) else _expand(repo, fi.module, st, counter, fi.name)
                    if rep is not None:
                        blk[i:i + 1] = rep
                        i += len(rep)
                        changed = True
                    else:
                        if not isinstance(st, (ast.FunctionDef, ast.AsyncFunctionDef, ast.ClassDef)):
                            work.append(st)
                        i += 1
        if not changed:
            break
    return fn, counter[0]


def effective_node(repo, fi):
    """The function as it runs when it is decorated by a package decorator that only adds a prologue:

        def deco(handler):                      @deco
            @wraps(handler)                     def f(self, code, idx, ...):
            def wrapper(self, code, idx, ...):      <body>
                <prologue>
                return handler(self, code, idx, ...)
            return wrapper

    -> a copy of `f` whose body is <prologue> + <body> (the preamble hoisted out of several handlers into a decorator is read where it
    executes).  Anything else (foreign decorators, a wrapper that does more than call through at its end, renamed or reordered parameters)
    returns the node unchanged."""
    fn = fi.node
    if not isinstance(fn, ast.FunctionDef) or len(fn.decorator_list) != 1 or not isinstance(fn.decorator_list[0], ast.Name):
        return fn
    decos = repo.find_funcs(fi.module, fn.decorator_list[0].id)
    if len(decos) != 1 or not isinstance(decos[0].node, ast.FunctionDef):
        return fn
    d = decos[0].node
    dps = [a.arg for a in d.args.posonlyargs + d.args.args]
    if len(dps) != 1:
        return fn
    inner = [s for s in d.body if isinstance(s, ast.FunctionDef)]
    if len(inner) != 1 or not (isinstance(d.body[-1], ast.Return) and isinstance(d.body[-1].value, ast.Name) and d.body[-1].value.id == inner[0].name):
        return fn
    w = inner[0]
    last = w.body[-1] if w.body else None
    if not (isinstance(last, ast.Return) and isinstance(last.value, ast.Call) and isinstance(last.value.func, ast.Name) and last.value.func.id == dps[0]):
        return fn
    wps = [a.arg for a in w.args.posonlyargs + w.args.args]
    fps = [a.arg for a in fn.args.posonlyargs + fn.args.args]
    passed = [a.id if isinstance(a, ast.Name) else None for a in last.value.args]
    if wps != fps or passed != fps or last.value.keywords or w.args.vararg or w.args.kwarg:
        return fn
    out = copy.deepcopy(fn)
    prologue = [copy.deepcopy(s) for s in w.body[:-1]
                if not (isinstance(s, ast.Expr) and isinstance(s.value, ast.Constant) and isinstance(s.value.value, str))]
    out.body = prologue + out.body
    out.decorator_list = []
    return out


# ----------------------------------------------------------------------------------------------------------------------
# a small partial evaluator for the inlined view (used by the rules that compare what two arms of a function push)

def _pure(e) -> bool:
    """Expressions whose repeated evaluation reads the same: names, literals, attribute chains, slices of those, getattr(x, 'c'[, d])."""
    if isinstance(e, (ast.Name, ast.Constant)):
        return True
    if isinstance(e, ast.Attribute):
        return _pure(e.value)
    if isinstance(e, ast.Subscript) and isinstance(e.slice, ast.Slice):
        return _pure(e.value) and all(x is None or _pure(x) for x in (e.slice.lower, e.slice.upper, e.slice.step))
    if isinstance(e, ast.UnaryOp) and isinstance(e.op, (ast.USub, ast.Not)):
        return _pure(e.operand)
    if isinstance(e, ast.Tuple):
        return all(_pure(x) for x in e.elts)
    if isinstance(e, ast.Call) and isinstance(e.func, ast.Name) and e.func.id == 'getattr' and 2 <= len(e.args) <= 3 and not e.keywords:
        return all(_pure(a) for a in e.args)
    return False


class _Repl(ast.NodeTransformer):
    def __init__(self, env):
        self.env = env

    def visit_Name(self, node):
        if isinstance(node.ctx, ast.Load) and node.id in self.env:
            return copy.deepcopy(self.env[node.id])
        return node


def _assigned_in(nodes) -> set:
    out = set()
    for n in nodes:
        for x in ast.walk(n):
            if isinstance(x, ast.Name) and isinstance(x.ctx, (ast.Store, ast.Del)):
                out.add(x.id)
    return out


def simplify(fn, const_strs=None, max_unroll: int = 6):
    """Fold `if <literal>`, forward-substitute locals bound to pure expressions (straight-line, per block) and unroll `for x in T` when
    `const_strs(T expr)` gives a short tuple of string constants.  Works in place on a copy produced by `inlined()`; nothing is evaluated
    beyond what `const_strs` (the module-constant evaluator of the caller) resolves."""
    const_strs = const_strs or (lambda e: None)
    # names that are mutated in place somewhere (`x[0:0] = ...`, `x.append(...)`, `x += ...`) are objects with identity: never substituted
    mutated = set()
    for x in ast.walk(fn):
        if isinstance(x, (ast.Subscript, ast.Attribute)) and isinstance(x.ctx, (ast.Store, ast.Del)) and isinstance(x.value, ast.Name):
            mutated.add(x.value.id)
        elif isinstance(x, ast.AugAssign) and isinstance(x.target, ast.Name):
            mutated.add(x.target.id)
        elif isinstance(x, ast.Call) and isinstance(x.func, ast.Attribute) and isinstance(x.func.value, ast.Name) and \
                x.func.attr in ('append', 'extend', 'insert', 'reverse', 'sort', 'pop', 'clear', 'remove', 'update', 'add', 'discard', 'setdefault'):
            mutated.add(x.func.value.id)

    def block(stmts, env):
        out = []
        for st in stmts:
            if isinstance(st, ast.If):
                st.test = _Repl(env).visit(st.test)
                if isinstance(st.test, ast.Constant):
                    out += block(st.body if st.test.value else st.orelse, env)
                    continue
                killed = _assigned_in(st.body + st.orelse)
                st.body = block(st.body, dict(env))
                st.orelse = block(st.orelse, dict(env))
                for k in list(env):
                    if k in killed or any(isinstance(y, ast.Name) and y.id in killed for y in ast.walk(env[k])):
                        del env[k]
                out.append(st)
                continue
            if isinstance(st, (ast.For, ast.While)):
                killed = _assigned_in([st])
                inner = {k: v for k, v in env.items() if k not in killed and not any(isinstance(y, ast.Name) and y.id in killed for y in ast.walk(v))}
                if isinstance(st, ast.For):
                    st.iter = _Repl(env).visit(st.iter)
                    vals = const_strs(st.iter) if isinstance(st.target, ast.Name) else None
                    if vals is not None and len(vals) <= max_unroll and not st.orelse and \
                            not any(isinstance(y, (ast.Break, ast.Continue)) for b in st.body for y in ast.walk(b)):
                        for v in vals:
                            body = [copy.deepcopy(b) for b in st.body]
                            e2 = dict(inner)
                            e2[st.target.id] = ast.Constant(value=v)
                            out += block(body, e2)
                        for k in list(env):
                            if k in killed:
                                del env[k]
                        continue
                else:
                    st.test = _Repl(inner).visit(st.test)
                st.body = block(st.body, dict(inner))
                st.orelse = block(st.orelse, dict(inner))
                for k in list(env):
                    if k not in inner:
                        del env[k]
                out.append(st)
                continue
            if isinstance(st, (ast.With, ast.Try)):
                # no substitution across these (exceptional flow); names assigned inside are killed
                killed = _assigned_in([st])
                for k in list(env):
                    if k in killed or any(isinstance(y, ast.Name) and y.id in killed for y in ast.walk(env[k])):
                        del env[k]
                out.append(st)
                continue
            if isinstance(st, ast.Assign) and len(st.targets) == 1 and isinstance(st.targets[0], ast.Name):
                st.value = _Repl(env).visit(st.value)
                name = st.targets[0].id
                for k in list(env):
                    if k == name or any(isinstance(y, ast.Name) and y.id == name for y in ast.walk(env[k])):
                        del env[k]
                if name not in mutated and _pure(st.value) and not any(isinstance(y, ast.Name) and y.id == name for y in ast.walk(st.value)):
                    env[name] = st.value
                elif _pure(st.value):
                    pass            # `x = x[::-1]` with x unknown: keep the statement, no binding
                out.append(st)
                continue
            new = _Repl(env).visit(st)
            for k in _assigned_in([new]):
                env.pop(k, None)
                for k2 in list(env):
                    if any(isinstance(y, ast.Name) and y.id == k for y in ast.walk(env[k2])):
                        del env[k2]
            out.append(new)
        return out
    fn.body = block(fn.body, {})
    ast.fix_missing_locations(fn)
    return fn
