"""Statement-level inlining of private helpers, for rules that reason about what ONE function does.

A maintainer who extracts a block of a long function into a private worker (or the reverse) does not change behaviour; a rule that reads
the body of the long function must see the same thing before and after.  `inlined(repo, fi)` returns a copy of the function's AST in which
every statement of the form

    helper(a, b)            T = helper(a, b)            T1, T2 = helper(a, b)            return helper(a, b)

whose callee is a plain module-level function of the package (resolved by `Repo.find_funcs`: same module, imported, or moved), is not a
generator, has no decorators, takes only named parameters and returns at most once, as its last statement, is replaced by the callee's
body.  Parameters that the callee never rebinds and that receive a plain name or a literal are substituted; the others are bound by a
prelude assignment.  The callee's own locals get a unique suffix so that they cannot capture names of the caller.  Nothing is evaluated.
"""
from __future__ import annotations

import ast
import copy

from .model import walk_no_nested


def _stored_names(fn) -> set[str]:
    out = set()
    for x in ast.walk(fn):
        if isinstance(x, ast.Name) and isinstance(x.ctx, (ast.Store, ast.Del)):
            out.add(x.id)
        elif isinstance(x, (ast.FunctionDef, ast.AsyncFunctionDef, ast.ClassDef)) and x is not fn:
            out.add(x.name)
    return out


def _inlinable(g) -> bool:
    n = g.node
    if not isinstance(n, ast.FunctionDef) or n.decorator_list or '.' in g.qualname:
        return False
    a = n.args
    if a.vararg or a.kwarg:
        return False
    for x in walk_no_nested(n):
        if isinstance(x, (ast.Yield, ast.YieldFrom, ast.Await, ast.Global, ast.Nonlocal)):
            return False
    if any(isinstance(x, (ast.FunctionDef, ast.AsyncFunctionDef, ast.ClassDef, ast.Lambda)) for x in ast.walk(n) if x is not n):
        return False
    rets = [x for x in walk_no_nested(n) if isinstance(x, ast.Return)]
    if len(rets) > 1 or (rets and rets[0] is not n.body[-1]):
        return False
    return True


class _Subst(ast.NodeTransformer):
    def __init__(self, direct, rename):
        self.direct, self.rename = direct, rename

    def visit_Name(self, node):
        if node.id in self.direct and isinstance(node.ctx, ast.Load):
            return copy.deepcopy(self.direct[node.id])
        if node.id in self.rename:
            return ast.copy_location(ast.Name(id=self.rename[node.id], ctx=node.ctx), node)
        return node


def _expand(repo, module, stmt, counter, self_name):
    """Replacement statement list for `stmt`, or None."""
    call = tgt = None
    is_return = False
    if isinstance(stmt, ast.Return) and isinstance(stmt.value, ast.Call):
        call, is_return = stmt.value, True
    elif isinstance(stmt, ast.Expr) and isinstance(stmt.value, ast.Call):
        call = stmt.value
    elif isinstance(stmt, ast.Assign) and len(stmt.targets) == 1 and isinstance(stmt.value, ast.Call):
        call, tgt = stmt.value, stmt.targets[0]
    if call is None or not isinstance(call.func, ast.Name) or call.func.id == self_name:
        return None
    if any(isinstance(a, ast.Starred) for a in call.args) or any(k.arg is None for k in call.keywords):
        return None
    cands = repo.find_funcs(module, call.func.id)
    if len(cands) != 1 or not _inlinable(cands[0]):
        return None
    g = cands[0].node
    params = list(g.args.posonlyargs) + list(g.args.args)
    kwonly = list(g.args.kwonlyargs)
    if len(call.args) > len(params):
        return None
    bound = {}
    for p, a in zip(params, call.args):
        bound[p.arg] = a
    names = {p.arg for p in params + kwonly}
    for k in call.keywords:
        if k.arg not in names or k.arg in bound:
            return None
        bound[k.arg] = k.value
    defaults = dict(zip([p.arg for p in params][len(params) - len(g.args.defaults):], g.args.defaults))
    defaults.update({p.arg: d for p, d in zip(kwonly, g.args.kw_defaults) if d is not None})
    for p in params + kwonly:
        if p.arg not in bound:
            if p.arg not in defaults:
                return None
            bound[p.arg] = defaults[p.arg]
    counter[0] += 1
    sfx = f'__i{counter[0]}'
    stored = _stored_names(g)
    direct, rename, prelude = {}, {}, []
    def simple(e):
        # a name, a literal, an attribute chain over a name, or the negation of one: substituting it for the parameter reads the same
        while isinstance(e, ast.UnaryOp) and isinstance(e.op, ast.Not):
            e = e.operand
        while isinstance(e, ast.Attribute):
            e = e.value
        return isinstance(e, (ast.Name, ast.Constant))
    for p, a in bound.items():
        if p not in stored and simple(a):
            direct[p] = a
        elif is_return and isinstance(a, ast.Name):
            # tail call: nothing of the caller runs afterwards, so a parameter the worker rebinds may simply keep the caller's name
            rename[p] = a.id
        else:
            rename[p] = p + sfx
            prelude.append(ast.copy_location(ast.Assign(targets=[ast.Name(id=p + sfx, ctx=ast.Store())], value=copy.deepcopy(a)), stmt))
    for n in stored:
        if n not in rename and n not in direct:
            rename[n] = n + sfx
    body = [copy.deepcopy(s) for s in g.body]
    if body and isinstance(body[0], ast.Expr) and isinstance(body[0].value, ast.Constant) and isinstance(body[0].value.value, str):
        body = body[1:]
    sub = _Subst(direct, rename)
    body = [sub.visit(s) for s in body]
    out = prelude
    if is_return:
        # `return helper(...)`: the worker's own trailing return becomes the caller's
        out += body
        if not (body and isinstance(body[-1], ast.Return)):
            out.append(ast.copy_location(ast.Return(value=None), stmt))
        for s_ in out:
            ast.fix_missing_locations(s_)
        return out
    if body and isinstance(body[-1], ast.Return):
        ret = body.pop()
        out += body
        if tgt is not None:
            rv = ret.value or ast.Constant(value=None)
            if isinstance(tgt, (ast.Tuple, ast.List)) and isinstance(rv, ast.Tuple) and len(tgt.elts) == len(rv.elts) and \
                    not any(isinstance(e, ast.Starred) for e in list(tgt.elts) + list(rv.elts)) and \
                    all(isinstance(e, ast.Name) for e in rv.elts) and len({e.id for e in rv.elts}) == len(rv.elts):
                # `a, b = helper()` with `return x, y` of distinct worker locals: elementwise, no aliasing between the two sides
                out += [ast.copy_location(ast.Assign(targets=[t], value=v), stmt) for t, v in zip(tgt.elts, rv.elts)]
            else:
                out.append(ast.copy_location(ast.Assign(targets=[tgt], value=rv), stmt))
        elif ret.value is not None:
            out.append(ast.copy_location(ast.Expr(value=ret.value), stmt))
    else:
        out += body
        if tgt is not None:
            out.append(ast.copy_location(ast.Assign(targets=[tgt], value=ast.Constant(value=None)), stmt))
    for s in out:
        ast.fix_missing_locations(s)
    return out or [ast.copy_location(ast.Pass(), stmt)]


def _walk_blocks(node):
    for field in ('body', 'orelse', 'finalbody'):
        blk = getattr(node, field, None)
        if isinstance(blk, list) and blk and isinstance(blk[0], ast.stmt):
            yield blk
    for h in getattr(node, 'handlers', []) or []:
        yield h.body
    for c in getattr(node, 'cases', []) or []:
        yield c.body


def inlined(repo, fi, depth: int = 2):
    """Deep copy of `fi.node` with helper calls at statement level expanded `depth` times.  Returns (node, number of expansions)."""
    fn = copy.deepcopy(fi.node)
    if isinstance(fn, ast.Lambda):
        return fn, 0
    counter = [0]
    for _ in range(depth):
        changed = False
        work = [fn]
        while work:
            node = work.pop()
            for blk in _walk_blocks(node):
                i = 0
                while i < len(blk):
                    st = blk[i]
                    rep = None if isinstance(st, (ast.FunctionDef, ast.AsyncFunctionDef, ast.ClassDef)) else _expand(repo, fi.module, st, counter, fi.name)
                    if rep is not None:
                        blk[i:i + 1] = rep
                        i += len(rep)
                        changed = True
                    else:
                        if not isinstance(st, (ast.FunctionDef, ast.AsyncFunctionDef, ast.ClassDef)):
                            work.append(st)
                        i += 1
        if not changed:
            break
    return fn, counter[0]
