"""Rule engine: contexts, findings, evidence, known findings, exit codes."""
from __future__ import annotations

import json
import os
import sys
import time
import traceback
from dataclasses import dataclass, field, asdict

from .model import Repo, AnalysisError, FuncInfo, norm
from .consteval import Evaluator

VERIF = os.path.dirname(os.path.dirname(os.path.abspath(__file__)))
EVIDENCE_DIR = os.path.join(VERIF, 'evidence')
KNOWN_FILE = os.path.join(VERIF, 'known_findings.json')
REPLAY_DIR = os.path.join(VERIF, 'evidence', 'replay')


@dataclass
class Finding:
    prop: str
    rule: str
    module: str
    func: str
    construct: str
    why: str
    line: int = 0
    path: str = ''      # for path rules: entry -> offending exit

    @property
    def key(self) -> str:
        return f'{self.rule}|{self.module}|{self.func}|{self.construct}'

    def text(self) -> str:
        loc = f'src/fst/{self.module}.py:{self.line}'
        s = f'{loc} rule={self.rule} function={self.func} construct={self.construct!r} why={self.why}'
        if self.path:
            s += f' path={self.path}'
        return s


class Ctx:
    """Per-run analysis context handed to a property's rule module."""

    def __init__(self, prop: str, repo: Repo, tier: str = 'quick', pyver=None):
        self.prop = prop
        self.repo = repo
        self.tier = tier
        self.ev = Evaluator(repo, pyver)
        self.findings: list[Finding] = []
        self.instances: dict[str, list] = {}     # rule -> [(key, ok)]
        self.min_expected: dict[str, int] = {}
        self.samples: list = []
        self.notes: list[str] = []
        self.not_decided: list[str] = []
        self.rules_doc: dict[str, str] = {}
        self.extra: dict = {}

    # --- registration ---------------------------------------------------------------------------------------------
    def rule(self, rid: str, doc: str, min_instances: int = 1):
        self.rules_doc[rid] = doc
        self.min_expected[rid] = min_instances
        self.instances.setdefault(rid, [])

    def ok(self, rid: str, key: str, sample=None):
        self.instances.setdefault(rid, []).append((key, True))
        if sample is not None and len([s for s in self.samples if s.get('rule') == rid]) < 4:
            self.samples.append({'rule': rid, 'instance': key, 'detail': sample})

    def bad(self, rid: str, module: str, func: str, construct, why: str, line: int = 0, path: str = ''):
        c = construct if isinstance(construct, str) else norm(construct)
        if not line and not isinstance(construct, str):
            line = getattr(construct, 'lineno', 0)
        f = Finding(self.prop, rid, module, func, norm(c), why, line, path)
        self.instances.setdefault(rid, []).append((f.key, False))
        if not any(x.key == f.key for x in self.findings):
            self.findings.append(f)

    def check(self, rid: str, cond: bool, module: str, func: str, construct, why: str, line: int = 0, sample=None):
        if cond:
            c = construct if isinstance(construct, str) else norm(construct)
            self.ok(rid, f'{module}|{func}|{norm(c)}', sample)
        else:
            self.bad(rid, module, func, construct, why, line)
        return cond

    def note(self, s: str):
        self.notes.append(s)

    # --- results -----------------------------------------------------------------------------------------------------
    def verify_counts(self):
        if os.environ.get('PFST_VERIF_COUNTS'):
            for rid, n in self.min_expected.items():
                print(f'  COUNT {rid}: {len(self.instances.get(rid, []))} (min {n})')
            return
        for rid, n in self.min_expected.items():
            got = len(self.instances.get(rid, []))
            # the floor guards against a rule that no longer sees its sites at all; ordinary maintenance (a worker extracted, sites
            # consolidated into a helper, a table row merged) legitimately moves the count, so the armed threshold is half of what was
            # confirmed by hand (never below one).  Lost table rows are reported by the row-level comparison of the rule itself.
            floor = max(1, n // 2) if n else 0          # a rule whose expected count is zero ("no such construct") has no floor
            if got < floor:
                raise AnalysisError(f'rule {rid} matched {got} instance(s), fewer than half of the {n} confirmed by hand on the '
                                    f'pinned tree: the rule no longer sees its sites (vacuous pass refused)')


# ----------------------------------------------------------------------------------------------------------------------

_PAR_STATE = {}


def _par_worker(idx):
    return idx, _PAR_STATE['func'](_PAR_STATE['items'][idx])


def parallel_map(func, items, jobs: int | None = None, min_items: int = 8):
    """Map `func` over `items` in forked worker processes (the analysis state is inherited by fork, results must be
    picklable).  Falls back to a plain loop for small inputs or when PFST_VERIF_JOBS=1."""
    import multiprocessing as mp
    jobs = jobs or int(os.environ.get('PFST_VERIF_JOBS', '0') or 0) or min(16, os.cpu_count() or 1)
    if jobs <= 1 or len(items) < min_items:
        return [func(x) for x in items]
    _PAR_STATE['func'], _PAR_STATE['items'] = func, items
    ctxm = mp.get_context('fork')
    out = [None] * len(items)
    with ctxm.Pool(jobs) as pool:
        for idx, res in pool.imap_unordered(_par_worker, range(len(items)), chunksize=2 if len(items) >= 32 else 1):
            out[idx] = res
    _PAR_STATE.clear()
    return out


def key_signature(key: str) -> str:
    """rule|module|function|construct with argument lists and receivers dropped:
    `_arguments_as(fst_, fst.FST.get_option('args_as', options)) @after-mutation` -> `_arguments_as @after-mutation`."""
    import re
    parts = key.split('|', 3)
    if len(parts) < 4:
        return key
    c = parts[3]
    prev = None
    while prev != c:
        prev = c
        c = re.sub(r'\([^()]*\)', '', c)
    c = re.sub(r'\b\w+\.', '', c)
    return '|'.join(parts[:3] + [' '.join(c.split())])


def load_known() -> dict:
    if not os.path.exists(KNOWN_FILE):
        return {'findings': [], 'fixed': []}
    with open(KNOWN_FILE) as f:
        return json.load(f)


def run_property(prop: str, rule_module, tier: str = 'quick', repo: Repo | None = None, write: bool = True,
                 quiet: bool = False, pyvers=None) -> tuple[int, Ctx]:
    """Run one property's rules on the working tree.  Returns (exit code, ctx)."""
    t0 = time.time()
    if os.environ.get('PFST_VERIF_NOWRITE'):
        write = False      # development runs against seeded variants must not overwrite the committed evidence
    seed = int(os.environ.get('VERIF_SEED', '0') or 0)
    out = (lambda *a: None) if quiet else print
    try:
        repo = repo or Repo()
        ctx = Ctx(prop, repo, tier)
        if getattr(repo, 'renames', None):
            ctx.extra['recovered_renames'] = dict(repo.renames)       # functions read under the name the rules know (sa/canon.py)
        rule_module.run(ctx)
        ctx.verify_counts()
        extra_ctxs = []
        if tier == 'thorough' and getattr(rule_module, 'VERSIONED', False):
            for pv in (pyvers or [(3, 10), (3, 11), (3, 13), (3, 14)]):
                c2 = Ctx(prop, repo, tier, pyver=pv)
                rule_module.run(c2)
                c2.verify_counts()
                extra_ctxs.append((pv, c2))
                for f in c2.findings:
                    if not any(x.key == f.key for x in ctx.findings):
                        f.why += f' [evaluated for python {pv[0]}.{pv[1]}]'
                        ctx.findings.append(f)
        selftest = None
        if tier == 'thorough' and not os.environ.get('PFST_VERIF_NOSELFTEST'):
            from .selftest import run_selftest
            selftest = run_selftest(prop, rule_module, repo, frozenset(f.key for f in ctx.findings))
    except AnalysisError as e:
        out(f'ANALYSIS-ERROR property={prop} {e}')
        return 2, None
    except Exception:
        out(f'ANALYSIS-ERROR property={prop} internal error')
        if not quiet:
            traceback.print_exc()
        return 2, None

    known = load_known()
    known_keys = {k['key']: k for k in known.get('findings', []) if k.get('property') == prop}
    # a listed finding is the construct (rule, function, what is called / done), not the spelling of its locals: a rename in /repo must
    # not turn a recorded finding into a "new" violation
    known_sigs = {key_signature(k): v for k, v in known_keys.items()}

    def listed(f):
        return known_keys.get(f.key) or known_sigs.get(key_signature(f.key))
    new = [f for f in ctx.findings if not listed(f)]
    old = [f for f in ctx.findings if listed(f)]
    for f in old:
        out(f'KNOWN-FINDING: property={prop} {listed(f).get("what", "")} :: {f.text()}')
    code = 0
    replay = ''
    stale = os.path.join(REPLAY_DIR, f'{prop}.findings.json')
    if write and not new and os.path.exists(stale):
        os.unlink(stale)
    if new:
        code = 1
        if write:
            os.makedirs(REPLAY_DIR, exist_ok=True)
            replay = os.path.join(REPLAY_DIR, f'{prop}.findings.json')
            with open(replay, 'w') as fh:
                json.dump({'property': prop, 'findings': [dict(asdict(f), key=f.key) for f in new]}, fh, indent=1)
        for f in new:
            out('FINDING ' + f.text())
        out(f'VIOLATION property={prop} replay={replay}')
    if selftest is not None:
        # informational: the verdict on the tree does not depend on the checker's own regression matrix
        out(f'SELFTEST property={prop} variants={selftest["run"]} reported={selftest["killed"]} silent-as-required={selftest["silent_ok"]} '
            f'stale={len(selftest["stale"])} not-reported={selftest["survived"]} false-alarms={selftest["false_alarms"]}')
    if write:
        write_evidence(ctx, tier, seed, time.time() - t0, len(new), len(old), selftest,
                       [(pv, c) for pv, c in extra_ctxs])
    if not quiet:
        n_inst = sum(len(v) for v in ctx.instances.values())
        out(f'property={prop} tier={tier} rules={len(ctx.rules_doc)} instances={n_inst} findings={len(ctx.findings)} '
            f'(known={len(old)}) wall={time.time() - t0:.2f}s')
    return code, ctx


def write_evidence(ctx: Ctx, tier, seed, wall, n_new, n_known, selftest, extra):
    os.makedirs(EVIDENCE_DIR, exist_ok=True)
    per_rule = {}
    distinct = set()
    total = 0
    for rid, lst in ctx.instances.items():
        keys = {k for k, _ in lst}
        per_rule[rid] = {'doc': ctx.rules_doc.get(rid, ''), 'instances': len(lst), 'distinct': len(keys),
                         'discharged': sum(1 for _, ok in lst if ok), 'min_expected': ctx.min_expected.get(rid, 0)}
        distinct |= {(rid, k) for k in keys}
        total += len(lst)
    evaluations = total
    if selftest:
        evaluations += selftest['run']
    for pv, c in extra:
        evaluations += sum(len(v) for v in c.instances.values())
    cov = {
        'explanation': ('static rule check over the current source of /repo/src/fst (parsed, never imported): every rule '
                        'enumerates its instances (table rows, call sites, CFG paths, functions) from the tree and '
                        'decides each one; see rules. Structural necessary conditions of the property are decided, '
                        'the value-level behaviour is not (not_decided).'),
        'evaluations': evaluations,
        'distinct_nontrivial': len(distinct),
        'rule': ('an instance is one (rule, module, function, normalised construct) obligation enumerated from the '
                 'source; distinct = distinct keys; trivial instances (rows without handler, calls on non-target '
                 'receivers) are not registered at all'),
        'obligations': total,
        'discharged': sum(v['discharged'] for v in per_rule.values()),
        'rules': per_rule,
        'samples': ctx.samples[:24] or [{'note': 'no sample recorded'}],
        'exhaustive': True,
        'modules_analysed': ctx.repo.digests(),
        'functions_indexed': sum(len(v) for m in ctx.repo.modules.values() for v in m.funcs.values()),
        'python_grammar_reference': '%d.%d' % ctx.ev.pyver,
        'not_decided': ctx.not_decided,
        'notes': ctx.notes[:40],
        'findings': [f.text() for f in ctx.findings][:50],
        'known_findings_matched': n_known,
    }
    cov.update(ctx.extra)
    if extra:
        cov['python_versions_evaluated'] = ['%d.%d' % pv for pv, _ in extra]
    if selftest:
        cov['selftest'] = {k: selftest[k] for k in ('run', 'killed', 'survived', 'stale', 'silent_ok', 'false_alarms', 'by_rule')}
        cov['selftest']['what'] = ('variants of the current tree built in memory (hand-written substitutions from /verif/selftest/mutants.json and '
                                   'the confirmed seeded changes under /verif/seeded); killed = the expected rule reported it, silent_ok = a '
                                   'behaviour-preserving rewrite stayed silent')
    ev = {
        'property_id': ctx.prop, 'tier': tier, 'seed': seed, 'level': 'other', 'coverage': cov,
        'assumptions': getattr(ctx, 'assumptions', []) + [
            'the source under /repo/src/fst is what gets imported (no import hooks, no monkey patching at run time)',
            "FST method names are unique across the modules injected into class FST (checked on every run)",
        ],
        'wall_s': round(wall, 3), 'violations': n_new,
    }
    with open(os.path.join(EVIDENCE_DIR, f'{ctx.prop}.json'), 'w') as fh:
        json.dump(ev, fh, indent=1, default=str)


def replay(prop: str, rule_module, path: str) -> int:
    """Re-run the property and report which of the recorded findings still hold on the current tree."""
    with open(path) as fh:
        rec = json.load(fh)
    code, ctx = run_property(prop, rule_module, 'quick', write=False, quiet=True)
    if ctx is None:
        print(f'ANALYSIS-ERROR property={prop} replay could not analyse the tree')
        return 2
    cur = {f.key: f for f in ctx.findings}
    still = [r for r in rec.get('findings', []) if r['key'] in cur]
    for r in rec.get('findings', []):
        print(('REPRODUCED ' if r['key'] in cur else 'GONE       ') + r['key'])
    if still:
        print(f'VIOLATION property={prop} replay={path}')
        return 1
    return 0
