"""Source model of /repo/src/fst: parsed modules, function / class index, imports, FST namespace.

Nothing of the repository is imported or executed.  All information comes from `ast.parse` of the working tree (or of an
in-memory source map, which is how the self-test feeds mutants to the same rules).
"""
from __future__ import annotations

import ast
import hashlib
import os
from dataclasses import dataclass, field

REPO = os.environ.get('PFST_VERIF_REPO', '/repo')
PKG_DIR = 'src/fst'


class AnalysisError(Exception):
    """The analysis could not be carried out (vanished anchor, unsupported construct).  Exit code 2, never a pass."""


@dataclass
class FuncInfo:
    module: str
    qualname: str           # e.g. 'FST.copy', '_put_one', '_Modifying.enter'
    node: ast.AST            # FunctionDef / AsyncFunctionDef / Lambda
    cls: str | None = None   # enclosing class name (top level class only)
    variant: int = 0         # index among same-named definitions (pyver variants, property getter/setter/deleter)
    pyver: tuple | None = None  # (ge, lt) from @pyver or from an enclosing `if PYGEnn`
    kind: str = 'def'        # 'def' | 'getter' | 'setter' | 'deleter' | 'lambda'

    @property
    def name(self) -> str:
        return self.qualname.rsplit('.', 1)[-1]

    @property
    def key(self) -> str:
        k = f'{self.module}.{self.qualname}'
        if self.kind in ('setter', 'deleter'):
            k += f'@{self.kind}'
        if self.pyver:
            k += f'[py{self.pyver[0]}..{self.pyver[1]}]'
        return k

    @property
    def lineno(self) -> int:
        return self.node.lineno

    def params(self) -> list[str]:
        a = self.node.args
        return [x.arg for x in a.posonlyargs + a.args] + ([a.vararg.arg] if a.vararg else []) + \
               [x.arg for x in a.kwonlyargs] + ([a.kwarg.arg] if a.kwarg else [])


@dataclass
class ModuleInfo:
    name: str
    path: str
    src: str
    tree: ast.Module
    digest: str
    funcs: dict = field(default_factory=dict)      # qualname -> [FuncInfo, ...]
    classes: dict = field(default_factory=dict)    # name -> ClassDef
    imports: dict = field(default_factory=dict)    # local name -> (module, original name | None) ; module may be external
    lines: list = field(default_factory=list)

    def func(self, qualname: str) -> list[FuncInfo]:
        return self.funcs.get(qualname, [])


def _decorator_names(node) -> list[str]:
    out = []
    for d in getattr(node, 'decorator_list', []):
        try:
            out.append(ast.unparse(d))
        except Exception:  # pragma: no cover
            out.append('?')
    return out


def _pyver_of(node) -> tuple | None:
    for d in getattr(node, 'decorator_list', []):
        if isinstance(d, ast.Call) and isinstance(d.func, ast.Name) and d.func.id == 'pyver':
            ge = lt = None
            for kw in d.keywords:
                if kw.arg == 'ge' and isinstance(kw.value, ast.Constant):
                    ge = kw.value.value
                if kw.arg == 'lt' and isinstance(kw.value, ast.Constant):
                    lt = kw.value.value
            return (ge, lt)
    return None


class Repo:
    """All modules of the package, parsed."""

    def __init__(self, sources: dict[str, str] | None = None, root: str | None = None):
        self.root = root or REPO
        self.modules: dict[str, ModuleInfo] = {}
        self.not_analysed: list[str] = []
        if sources is None:
            sources = self.read_sources(self.root)
        self.renames = {}
        if not os.environ.get('PFST_VERIF_NOCANON'):
            from . import canon
            sources, self.renames = canon.canonicalise(sources)      # a renamed function the rules know by name is read under its old name
        for name, src in sorted(sources.items()):
            self._add(name, src)
        self._fst_ns = None

    # ------------------------------------------------------------------------------------------------------------------
    @staticmethod
    def read_sources(root: str | None = None) -> dict[str, str]:
        root = root or REPO
        d = os.path.join(root, PKG_DIR)
        if not os.path.isdir(d):
            raise AnalysisError(f'package directory {d} not found')
        out = {}
        for fn in sorted(os.listdir(d)):
            if fn.endswith('.py'):
                with open(os.path.join(d, fn), encoding='utf-8') as f:
                    out[fn[:-3]] = f.read()
        if len(out) < 20:
            raise AnalysisError(f'only {len(out)} modules under {d}; expected the fst package (28 modules)')
        return out

    def _add(self, name: str, src: str):
        try:
            tree = ast.parse(src, filename=name + '.py')
        except SyntaxError as e:
            raise AnalysisError(f'{name}.py does not parse: {e}')
        m = ModuleInfo(name, os.path.join(self.root, PKG_DIR, name + '.py'), src, tree,
                       hashlib.sha256(src.encode()).hexdigest()[:16], lines=src.split('\n'))
        self.modules[name] = m
        self._index(m, tree.body, prefix='', cls=None, pyver=None)

    def _index(self, m: ModuleInfo, body, prefix: str, cls, pyver):
        for n in body:
            if isinstance(n, (ast.FunctionDef, ast.AsyncFunctionDef)):
                q = prefix + n.name
                pv = _pyver_of(n) or pyver
                kind = 'def'
                for d in _decorator_names(n):
                    if d == 'property' or d.endswith('cached_property'):
                        kind = 'getter'
                    elif d.endswith('.setter'):
                        kind = 'setter'
                    elif d.endswith('.deleter'):
                        kind = 'deleter'
                lst = m.funcs.setdefault(q, [])
                lst.append(FuncInfo(m.name, q, n, cls, len(lst), pv, kind))
                # nested functions (closures) are indexed under their parent for lookups, but not as FST methods
                self._index(m, n.body, q + '.<locals>.', cls, pv)
            elif isinstance(n, ast.ClassDef):
                if not prefix:
                    m.classes[n.name] = n
                self._index(m, n.body, prefix + n.name + '.', cls or n.name, _pyver_of(n) or pyver)
            elif isinstance(n, ast.If):
                t = ast.unparse(n.test)
                pv_t = pv_f = pyver
                if t.startswith('PYGE') and t[4:].isdigit():
                    pv_t, pv_f = (int(t[4:]), None), (None, int(t[4:]))
                elif t.startswith('PYLT') and t[4:].isdigit():
                    pv_t, pv_f = (None, int(t[4:])), (int(t[4:]), None)
                self._index(m, n.body, prefix, cls, pv_t)
                self._index(m, n.orelse, prefix, cls, pv_f)
            elif isinstance(n, (ast.Try,)):
                self._index(m, n.body, prefix, cls, pyver)
                for h in n.handlers:
                    self._index(m, h.body, prefix, cls, pyver)
                self._index(m, n.orelse, prefix, cls, pyver)
            elif isinstance(n, (ast.With, ast.For, ast.While)):
                self._index(m, n.body, prefix, cls, pyver)
            elif isinstance(n, ast.ImportFrom) and not prefix:
                mod = ('.' * n.level) + (n.module or '')
                for a in n.names:
                    m.imports[a.asname or a.name] = (mod, a.name)
            elif isinstance(n, ast.Import) and not prefix:
                for a in n.names:
                    m.imports[a.asname or a.name.split('.')[0]] = (a.name, None)
            elif isinstance(n, ast.Assign) and not prefix and isinstance(n.value, ast.Lambda):
                for t in n.targets:
                    if isinstance(t, ast.Name):
                        lst = m.funcs.setdefault(t.id, [])
                        lst.append(FuncInfo(m.name, t.id, n.value, None, len(lst), pyver, 'lambda'))

    # ------------------------------------------------------------------------------------------------------------------
    def mod(self, name: str) -> ModuleInfo:
        if name not in self.modules:
            raise AnalysisError(f'module {name}.py vanished from {PKG_DIR}')
        return self.modules[name]

    def find_funcs(self, module: str, qualname: str) -> list[FuncInfo]:
        """Definitions of `module.qualname`, following the function when it was moved: imported into `module` from another package
        module, bound there as a module-level alias of another function, or (not bound in `module` at all any more) defined under that
        name in exactly one other module.  An anchor names a function; the file it lives in is incidental."""
        m = self.modules.get(module)
        if m is None:
            return []
        fs = m.func(qualname)
        if fs or '.' in qualname:
            return fs
        r = self.resolve_import(module, qualname)
        if r and r[0] in self.modules and r[0] != module:
            fs = self.modules[r[0]].func(r[1])
            if fs:
                return fs
        for st in m.tree.body:      # q = other_function
            if isinstance(st, ast.Assign) and len(st.targets) == 1 and isinstance(st.targets[0], ast.Name) and st.targets[0].id == qualname and \
                    isinstance(st.value, ast.Name) and st.value.id != qualname:
                fs = self.find_funcs(module, st.value.id)
                if fs:
                    return fs
        if qualname not in m.imports:
            homes = [mm for mm in self.modules.values() if mm.func(qualname)]
            if len(homes) == 1:
                return homes[0].func(qualname)
        return []

    def funcs(self, module: str, qualname: str, min_count: int = 1) -> list[FuncInfo]:
        fs = self.find_funcs(module, qualname)
        if len(fs) < min_count:
            raise AnalysisError(f'anchor function {module}.{qualname} not found (expected >= {min_count} definition(s))')
        return fs

    def all_funcs(self, include_nested: bool = True):
        for m in self.modules.values():
            for q, fs in m.funcs.items():
                if not include_nested and '<locals>' in q:
                    continue
                yield from fs

    def resolve_import(self, module: str, name: str, _depth: int = 0):
        """Follow `from .x import name` chains inside the package.  Returns (module, name) of the definition or None."""
        m = self.modules.get(module)
        if m is None or _depth > 6:
            return None
        if name in m.funcs or name in m.classes:
            return (module, name)
        imp = m.imports.get(name)
        if imp:
            mod, orig = imp
            if mod.startswith('.') and orig is not None:
                tgt = mod.lstrip('.')
                if tgt == '':   # from . import x  -> module alias
                    return ('<module>', orig) if orig in self.modules else None
                return self.resolve_import(tgt, orig, _depth + 1) or ((tgt, orig) if tgt in self.modules else None)
        return None

    def module_alias(self, module: str, name: str) -> str | None:
        """If `name` in `module` is bound to a package module (from . import x [as y]) return that module's name."""
        imp = self.modules[module].imports.get(name)
        if imp:
            mod, orig = imp
            if mod == '.' and orig in self.modules:
                return orig
            if mod.startswith('.') and orig is None:
                return None
        return None

    # ------------------------------------------------------------------------------------------------------------------
    def fst_namespace(self) -> dict[str, list[FuncInfo]]:
        """Name -> defining functions for everything reachable as an attribute of class FST (methods defined in the
        class body, functions imported into the class body, `name = module.func` aliases)."""
        if self._fst_ns is not None:
            return self._fst_ns
        m = self.mod('fst')
        cls = m.classes.get('FST')
        if cls is None:
            raise AnalysisError('class FST not found in fst.py')
        ns: dict[str, list[FuncInfo]] = {}
        dups = []

        def add(name, fis, origin):
            if name in ns and ns[name] and fis and ns[name][0].key != fis[0].key and ns[name][0].node is not fis[0].node:
                # redefinition inside class body with same qualname (property setter etc.) is fine
                if ns[name][0].qualname != fis[0].qualname or ns[name][0].module != fis[0].module:
                    dups.append((name, ns[name][0].key, fis[0].key))
            ns.setdefault(name, [])
            for fi in fis:
                if fi not in ns[name]:
                    ns[name].append(fi)

        def walk_body(body):
            for n in body:
                if isinstance(n, (ast.FunctionDef, ast.AsyncFunctionDef)):
                    add(n.name, m.func('FST.' + n.name), 'def')
                elif isinstance(n, ast.ImportFrom) and n.level:
                    tgt = (n.module or '')
                    for a in n.names:
                        r = self.resolve_import(tgt, a.name) if tgt in self.modules else None
                        if r and r[0] in self.modules:
                            add(a.asname or a.name, self.modules[r[0]].func(r[1]), 'import')
                        elif tgt in self.modules:
                            # a name the module binds by assignment (a property built by a factory: `body = _node_or_list_accessor('body')`)
                            # is an attribute of the class, not one of its functions; what the factory's closures do is analysed where they are
                            bound = any(isinstance(st, (ast.Assign, ast.AnnAssign)) and
                                        any(isinstance(t, ast.Name) and t.id == a.name
                                            for t in (st.targets if isinstance(st, ast.Assign) else [st.target]))
                                        for st in ast.walk(self.modules[tgt].tree) if isinstance(st, (ast.Assign, ast.AnnAssign)))
                            if not bound:
                                raise AnalysisError(f'FST imports {a.name} from {tgt} but it is not defined there')
                elif isinstance(n, ast.Assign) and len(n.targets) == 1 and isinstance(n.targets[0], ast.Name):
                    v = n.value
                    if isinstance(v, ast.Attribute) and isinstance(v.value, ast.Name):
                        modname = self.module_alias('fst', v.value.id)
                        if modname:
                            fis = self.modules[modname].func(v.attr)
                            if fis:
                                add(n.targets[0].id, fis, 'alias')
                elif isinstance(n, ast.If):
                    walk_body(n.body)
                    walk_body(n.orelse)

        walk_body(cls.body)
        if dups:
            raise AnalysisError(f'FST namespace has ambiguous method names: {dups[:5]}')
        self._fst_ns = ns
        return ns

    def class_methods(self, module: str, cls: str) -> dict[str, list[FuncInfo]]:
        m = self.mod(module)
        out = {}
        for q, fs in m.funcs.items():
            if q.startswith(cls + '.') and '<locals>' not in q and q.count('.') == 1:
                out[q.split('.', 1)[1]] = fs
        return out

    def digests(self) -> dict[str, str]:
        return {n: m.digest for n, m in self.modules.items()}


# ----------------------------------------------------------------------------------------------------------------------
# small helpers shared by rules

def norm(node: ast.AST | str, limit: int = 160) -> str:
    """Normalised text of a construct (used as instance key instead of line numbers)."""
    s = node if isinstance(node, str) else ast.unparse(node)
    s = ' '.join(s.split())
    return s if len(s) <= limit else s[:limit - 3] + '...'


def walk_no_nested(node: ast.AST, include_lambdas: bool = True):
    """Yield all nodes in a function body without descending into nested function / class definitions."""
    stack = list(ast.iter_child_nodes(node))[::-1]
    while stack:
        n = stack.pop()
        yield n
        if isinstance(n, (ast.FunctionDef, ast.AsyncFunctionDef, ast.ClassDef)):
            continue
        if isinstance(n, ast.Lambda) and not include_lambdas:
            continue
        stack.extend(list(ast.iter_child_nodes(n))[::-1])


def call_name(call: ast.Call) -> str | None:
    """Last attribute / name of the callee expression."""
    f = call.func
    if isinstance(f, ast.Name):
        return f.id
    if isinstance(f, ast.Attribute):
        return f.attr
    return None


def dotted(node: ast.AST) -> str | None:
    if isinstance(node, ast.Name):
        return node.id
    if isinstance(node, ast.Attribute):
        b = dotted(node.value)
        return b + '.' + node.attr if b else None
    return None
