"""Constant propagation with branch pruning over a function CFG (DESIGN §1.5b "constant-argument specialisation" and
"correlated branches"): abstract values are literals, 'truthy', 'falsy', 'notnone'.  Used to specialise callee summaries
(cut=False, del_comments=True, validated=1, put_loc=None ...) and to prune paths that a test on an unmodified local
contradicts."""
from __future__ import annotations

import ast

from .cfg import CFG, solve, subnodes

TRUTHY, FALSY, NOTNONE = ('truthy',), ('falsy',), ('notnone',)


def lit(v):
    return ('c', v)


def truth(av):
    if av is None:
        return None
    if av[0] == 'c':
        try:
            return bool(av[1])
        except Exception:
            return None
    if av == TRUTHY:
        return True
    if av == FALSY:
        return False
    return None


def is_none(av):
    if av is None:
        return None
    if av[0] == 'c':
        return av[1] is None
    if av in (TRUTHY, NOTNONE):
        return False
    return None


def eval_expr(e, facts: dict):
    if isinstance(e, ast.Constant):
        v = e.value
        if isinstance(v, (bool, int, str, type(None))) and not isinstance(v, float):
            return lit(v)
        return TRUTHY if v else FALSY
    if isinstance(e, ast.Name):
        return facts.get(e.id)
    if isinstance(e, ast.NamedExpr):
        return eval_expr(e.value, facts)
    if isinstance(e, ast.UnaryOp) and isinstance(e.op, ast.Not):
        t = truth(eval_expr(e.operand, facts))
        return None if t is None else lit(not t)
    if isinstance(e, ast.BoolOp):
        vals = [eval_expr(v, facts) for v in e.values]
        if isinstance(e.op, ast.And):
            for v in vals:
                t = truth(v)
                if t is False:
                    return v if v is not None and v[0] == 'c' else FALSY
                if t is None:
                    # unknown operand: result falsy if any later known-false?  conservatively unknown, unless a later one is False
                    if any(truth(w) is False for w in vals):
                        return FALSY
                    return None
            return vals[-1] if vals[-1] is not None else TRUTHY
        else:
            for v in vals:
                t = truth(v)
                if t is True:
                    return v if v is not None and v[0] == 'c' else TRUTHY
                if t is None:
                    if any(truth(w) is True for w in vals):
                        return TRUTHY
                    return None
            return vals[-1] if vals[-1] is not None else FALSY
    if isinstance(e, ast.IfExp):
        t = truth(eval_expr(e.test, facts))
        if t is True:
            return eval_expr(e.body, facts)
        if t is False:
            return eval_expr(e.orelse, facts)
        a, b = eval_expr(e.body, facts), eval_expr(e.orelse, facts)
        if a is not None and a == b:
            return a
        ta, tb = truth(a), truth(b)
        if ta is not None and ta == tb:
            return TRUTHY if ta else FALSY
        return None
    if isinstance(e, ast.Compare) and len(e.ops) == 1:
        l, r = eval_expr(e.left, facts), eval_expr(e.comparators[0], facts)
        op = e.ops[0]
        if isinstance(op, (ast.Is, ast.IsNot)) and isinstance(e.comparators[0], ast.Constant):
            c = e.comparators[0].value
            res = None
            if c is None:
                res = is_none(l)
            elif l is not None and l[0] == 'c':
                res = l[1] is c
            elif c is True or c is False:
                if l == NOTNONE or l is None:
                    res = None
                elif l == TRUTHY and c is False:
                    res = False
                elif l == FALSY and c is True:
                    res = False
            if res is None:
                return None
            return lit(res if isinstance(op, ast.Is) else not res)
        if isinstance(op, (ast.Eq, ast.NotEq)) and l is not None and r is not None and l[0] == 'c' and r[0] == 'c':
            res = l[1] == r[1]
            return lit(res if isinstance(op, ast.Eq) else not res)
        return None
    if isinstance(e, (ast.Tuple, ast.List, ast.Dict, ast.Set)):
        n = len(e.elts) if not isinstance(e, ast.Dict) else len(e.keys)
        if isinstance(e, (ast.Tuple, ast.List, ast.Set)) and any(isinstance(x, ast.Starred) for x in e.elts):
            return None
        return TRUTHY if n else FALSY
    if isinstance(e, (ast.JoinedStr, ast.Lambda)):
        return TRUTHY if isinstance(e, ast.Lambda) else NOTNONE
    if isinstance(e, ast.Subscript) and isinstance(e.slice, ast.Slice):
        return NOTNONE            # a slice of a sequence is a (possibly empty) sequence, never None
    if isinstance(e, (ast.ListComp, ast.SetComp, ast.DictComp, ast.GeneratorExp)):
        return NOTNONE
    if isinstance(e, ast.BinOp):
        return NOTNONE
    return None


def refine(test, label_true: bool, facts: dict) -> dict | None:
    """Facts after `test` evaluated to label_true; None if contradictory."""
    av = eval_expr(test, facts)
    t = truth(av)
    if t is not None and t != label_true:
        return None
    f = dict(facts)
    _refine_into(test, label_true, f)
    return f


def _set(f, name, new):
    cur = f.get(name)
    if cur is None:
        f[name] = new
        return
    if cur[0] == 'c':
        return                 # a literal is the most precise
    if new == NOTNONE and cur in (TRUTHY, FALSY):
        return
    if new in (TRUTHY, FALSY) or new[0] == 'c':
        f[name] = new


def _refine_into(test, val: bool, f: dict):
    if isinstance(test, ast.UnaryOp) and isinstance(test.op, ast.Not):
        _refine_into(test.operand, not val, f)
    elif isinstance(test, ast.Name):
        _set(f, test.id, TRUTHY if val else FALSY)
    elif isinstance(test, ast.NamedExpr) and isinstance(test.target, ast.Name):
        _set(f, test.target.id, TRUTHY if val else FALSY)
        _refine_into(test.value, val, f)
    elif isinstance(test, ast.BoolOp):
        if isinstance(test.op, ast.And) and val:
            for v in test.values:
                _refine_into(v, True, f)
        elif isinstance(test.op, ast.Or) and not val:
            for v in test.values:
                _refine_into(v, False, f)
    elif isinstance(test, ast.Compare) and len(test.ops) == 1:
        left = test.left
        if isinstance(left, ast.NamedExpr):
            left = left.target
        if isinstance(left, ast.Name) and isinstance(test.comparators[0], ast.Constant):
            c = test.comparators[0].value
            op = test.ops[0]
            if isinstance(op, (ast.Is, ast.IsNot, ast.Eq, ast.NotEq)) and (c is None or isinstance(c, (bool, int, str))):
                eq = val if isinstance(op, (ast.Is, ast.Eq)) else not val
                if eq:
                    f[left.id] = lit(c)
                elif c is None:
                    _set(f, left.id, NOTNONE)
                elif c is True and isinstance(op, (ast.Is, ast.IsNot)):
                    pass
                elif c is False and f.get(left.id) is None:
                    pass


def _assign_targets(st):
    """[(target, value or None)] for bindings performed when CFG node statement `st` is evaluated."""
    out = []
    if isinstance(st, ast.Assign):
        for t in st.targets:
            out.append((t, st.value))
    elif isinstance(st, ast.AnnAssign) and st.value is not None:
        out.append((st.target, st.value))
    elif isinstance(st, ast.AugAssign):
        out.append((st.target, None))
    return out


class ConstFlow:
    """Forward constant propagation over one function CFG with a bounded *disjunctive* state (set of fact sets), which keeps
    correlated branches apart (`if sep: x = None` ... `if sep: if x is not None:`).
    Result: per node the list of fact dicts under which it is reachable; a node with no entry is infeasible."""

    MAX_DISJ = 16

    def __init__(self, cfg: CFG, params_consts: dict, hook=None):
        """hook(node, facts) -> {pseudo-var: abstract value} | None : lets a rule carry its own typestate (names starting
        with '$') through the same path-sensitive flow; the update applies to the normal out-edges of the node only."""
        self.cfg = cfg
        self.hook = hook
        init = {}
        for k, v in (params_consts or {}).items():
            if isinstance(v, tuple) and v and v[0] in ('c', 'truthy', 'falsy', 'notnone'):
                init[k] = v
            else:
                init[k] = lit(v)
        # only facts about names that some test / conditional expression / call argument reads can matter
        self.relevant = set(init)
        for n in cfg.nodes:
            for e in cfg.node_exprs(n):
                for x in ast.walk(e):
                    if isinstance(x, ast.Name) and isinstance(x.ctx, ast.Load):
                        self.relevant.add(x.id)
        self.ins = solve(cfg, frozenset({frozenset(init.items())}), self._transfer, self._join)

    def all_facts(self, node_id) -> list[dict]:
        s = self.ins.get(node_id)
        return [] if s is None else [dict(d) for d in s]

    def facts(self, node_id) -> dict | None:
        """Facts that hold on *every* feasible path to the node (None if infeasible)."""
        s = self.ins.get(node_id)
        if not s:
            return None
        it = iter(s)
        common = set(next(it))
        for d in it:
            common &= d
        return dict(common)

    def feasible(self, node_id) -> bool:
        return bool(self.ins.get(node_id))

    def _join(self, a, b):
        u = a | b
        if len(u) > self.MAX_DISJ:
            it = iter(u)
            common = set(next(it))
            for d in it:
                common &= d
            return frozenset({frozenset(common)})
        return u

    def _transfer(self, node, state):
        outs: dict = {}
        for d in state:
            r = self._transfer1(node, d)
            if not isinstance(r, dict):
                r = {'*': r}
            for lab, v in r.items():
                if v is None:
                    outs.setdefault(lab, set())
                else:
                    outs.setdefault(lab, set()).add(v)
        res = {}
        star = outs.get('*')
        for lab in ('true', 'false', 'exc', 'next', 'loop'):
            if lab in outs:
                res[lab] = frozenset(outs[lab]) or None
            elif star is not None:
                res[lab] = frozenset(star) or None
        if star is not None:
            res['*'] = frozenset(star) or None
        return res

    def _norm(self, facts: dict):
        return frozenset((k, v) for k, v in facts.items() if k in self.relevant or k[:1] == '$')

    def _transfer1(self, node, state):
        r = self._transfer2(node, state)
        if self.hook is not None:
            upd = self.hook(node, dict(state))
            if upd:
                def app(fs):
                    if fs is None:
                        return None
                    d = dict(fs)
                    d.update(upd)
                    return frozenset(d.items())
                if isinstance(r, dict):
                    r = {lab: (v if lab == 'exc' else app(v)) for lab, v in r.items()}
                else:
                    r = {'exc': r, '*': app(r)}
        return r

    def _transfer2(self, node, state):
        facts = dict(state)
        cfg = self.cfg
        pre = self._norm(facts)
        if node.kind == 'test':
            test = node.ast
            self._bind_walrus(test, facts)
            out = {'exc': pre}
            for lab, val in (('true', True), ('false', False)):
                r = refine(test, val, facts)
                out[lab] = None if r is None else self._norm(r)
            out['next'] = self._norm(facts)
            return out
        if node.kind == 'iter':
            f2 = dict(facts)
            for x in ast.walk(node.ast.target):
                if isinstance(x, ast.Name):
                    f2.pop(x.id, None)
            self._bind_walrus(node.ast.iter, f2)
            it = eval_expr(node.ast.iter, facts)
            res = {'exc': pre, 'true': self._norm(f2), 'false': self._norm(f2)}
            if truth(it) is False:
                res['true'] = None
            return res
        if node.kind in ('with', 'case', 'except'):
            f2 = dict(facts)
            for e in cfg.node_exprs(node):
                for x in ast.walk(e):
                    if isinstance(x, ast.Name) and isinstance(x.ctx, ast.Store):
                        f2.pop(x.id, None)
            if node.kind == 'except' and node.ast.name:
                f2.pop(node.ast.name, None)
            return {'exc': pre, '*': self._norm(f2)}
        if node.kind == 'stmt':
            st = node.ast
            f2 = dict(facts)
            if isinstance(st, (ast.FunctionDef, ast.AsyncFunctionDef, ast.ClassDef)):
                f2.pop(st.name, None)
                return {'exc': pre, '*': self._norm(f2)}
            self._bind_walrus(st, f2)
            for t, v in _assign_targets(st):
                if isinstance(t, ast.Name):
                    av = eval_expr(v, f2) if v is not None else None
                    if av is None:
                        f2.pop(t.id, None)
                    else:
                        f2[t.id] = av
                else:
                    for x in ast.walk(t):
                        if isinstance(x, ast.Name) and isinstance(x.ctx, ast.Store):
                            f2.pop(x.id, None)
            if isinstance(st, ast.Delete):
                for t in st.targets:
                    if isinstance(t, ast.Name):
                        f2.pop(t.id, None)
            return {'exc': pre, '*': self._norm(f2)}
        return pre

    @staticmethod
    def _bind_walrus(e, facts):
        for x in ast.walk(e):
            if isinstance(x, ast.NamedExpr) and isinstance(x.target, ast.Name):
                av = eval_expr(x.value, facts)
                if av is None:
                    facts.pop(x.target.id, None)
                else:
                    facts[x.target.id] = av
