"""Constant propagation with branch pruning over a function CFG (DESIGN §1.5b "constant-argument specialisation" and
"correlated branches"): abstract values are literals, 'truthy', 'falsy', 'notnone'.  Used to specialise callee summaries
(cut=False, del_comments=True, validated=1, put_loc=None ...) and to prune paths that a test on an unmodified local
contradicts."""
from __future__ import annotations

import ast

from .cfg import CFG, solve, subnodes

TRUTHY, FALSY, NOTNONE = ('truthy',), ('falsy',), ('notnone',)


def lit(v):
    return ('c', v)


def truth(av):
    if av is None:
        return None
    if av[0] == 'c':
        try:
            return bool(av[1])
        except Exception:
            return None
    if av == TRUTHY:
        return True
    if av == FALSY:
        return False
    return None


def is_none(av):
    if av is None:
        return None
    if av[0] == 'c':
        return av[1] is None
    if av in (TRUTHY, NOTNONE):
        return False
    return None


def eval_expr(e, facts: dict):
    if isinstance(e, ast.Constant):
        v = e.value
        if isinstance(v, (bool, int, str, type(None))) and not isinstance(v, float):
            return lit(v)
        return TRUTHY if v else FALSY
    if isinstance(e, ast.Name):
        return facts.get(e.id)
    if isinstance(e, ast.NamedExpr):
        return eval_expr(e.value, facts)
    if isinstance(e, ast.UnaryOp) and isinstance(e.op, ast.Not):
        t = truth(eval_expr(e.operand, facts))
        return None if t is None else lit(not t)
    if isinstance(e, ast.BoolOp):
        vals = [eval_expr(v, facts) for v in e.values]
        if isinstance(e.op, ast.And):
            for v in vals:
                t = truth(v)
                if t is False:
                    return v if v is not None and v[0] == 'c' else FALSY
                if t is None:
                    # unknown operand: result falsy if any later known-false?  conservatively unknown, unless a later one is False
                    if any(truth(w) is False for w in vals):
                        return FALSY
                    return None
            return vals[-1] if vals[-1] is not None else TRUTHY
        else:
            for v in vals:
                t = truth(v)
                if t is True:
                    return v if v is not None and v[0] == 'c' else TRUTHY
                if t is None:
                    if any(truth(w) is True for w in vals):
                        return TRUTHY
                    return None
            return vals[-1] if vals[-1] is not None else FALSY
    if isinstance(e, ast.IfExp):
        t = truth(eval_expr(e.test, facts))
        if t is True:
            return eval_expr(e.body, facts)
        if t is False:
            return eval_expr(e.orelse, facts)
        a, b = eval_expr(e.body, facts), eval_expr(e.orelse, facts)
        if a is not None and a == b:
            return a
        ta, tb = truth(a), truth(b)
        if ta is not None and ta == tb:
            return TRUTHY if ta else FALSY
        return None
    if isinstance(e, ast.Compare) and len(e.ops) == 1:
        l, r = eval_expr(e.left, facts), eval_expr(e.comparators[0], facts)
        op = e.ops[0]
        if isinstance(op, (ast.Is, ast.IsNot)) and isinstance(e.comparators[0], ast.Constant):
            c = e.comparators[0].value
            res = None
            if c is None:
                res = is_none(l)
            elif l is not None and l[0] == 'c':
                res = l[1] is c
            elif c is True or c is False:
                if l == NOTNONE or l is None:
                    res = None
                elif l == TRUTHY and c is False:
                    res = False
                elif l == FALSY and c is True:
                    res = False
            if res is None:
                return None
            return lit(res if isinstance(op, ast.Is) else not res)
        if isinstance(op, (ast.Eq, ast.NotEq)) and l is not None and r is not None and l[0] == 'c' and r[0] == 'c':
            res = l[1] == r[1]
            return lit(res if isinstance(op, ast.Eq) else not res)
        return None
    if isinstance(e, (ast.Tuple, ast.List, ast.Dict, ast.Set)):
        n = len(e.elts) if not isinstance(e, ast.Dict) else len(e.keys)
        if isinstance(e, (ast.Tuple, ast.List, ast.Set)) and any(isinstance(x, ast.Starred) for x in e.elts):
            return None
        return TRUTHY if n else FALSY
    if isinstance(e, (ast.JoinedStr, ast.Lambda)):
        return TRUTHY if isinstance(e, ast.Lambda) else NOTNONE
    if isinstance(e, ast.Subscript) and isinstance(e.slice, ast.Slice):
        return NOTNONE            # a slice of a sequence is a (possibly empty) sequence, never None
    if isinstance(e, (ast.ListComp, ast.SetComp, ast.DictComp, ast.GeneratorExp)):
        return NOTNONE
    if isinstance(e, ast.BinOp):
        return NOTNONE
    return None


def refine(test, label_true: bool, facts: dict) -> dict | None:
    """Facts after `test` evaluated to label_true; None if contradictory."""
    av = eval_expr(test, facts)
    t = truth(av)
    if t is not None and t != label_true:
        return None
    f = dict(facts)
    _refine_into(test, label_true, f)
    return f


def refine_multi(test, label_true: bool, facts: dict, depth: int = 0) -> list[dict]:
    """Like refine() but splits `A or B` == True into {A} | {not A, B} and `A and B` == False into {not A} | {A, not B},
    so that a later `if A: ... elif B: ... else:` sees the else arm as contradictory."""
    av = eval_expr(test, facts)
    t = truth(av)
    if t is not None and t != label_true:
        return []
    inner = test
    neg = False
    while isinstance(inner, ast.UnaryOp) and isinstance(inner.op, ast.Not):
        inner = inner.operand
        neg = not neg
    want = label_true != neg
    if depth < 2 and isinstance(inner, ast.BoolOp) and len(inner.values) == 2 and \
            ((isinstance(inner.op, ast.Or) and want) or (isinstance(inner.op, ast.And) and not want)):
        a, b = inner.values
        first = isinstance(inner.op, ast.Or)       # Or-true: a True | (a False, b True) ; And-false: a False | (a True, b False)
        out = []
        for fa in refine_multi(a, first, facts, depth + 1):
            out.append(fa)
        for fa in refine_multi(a, not first, facts, depth + 1):
            out.extend(refine_multi(b, first, fa, depth + 1))
        return out
    r = refine(test, label_true, facts)
    return [] if r is None else [r]


def _set(f, name, new):
    cur = f.get(name)
    if cur is None:
        f[name] = new
        return
    if cur[0] == 'c':
        return                 # a literal is the most precise
    if new == NOTNONE and cur in (TRUTHY, FALSY):
        return
    if new in (TRUTHY, FALSY) or new[0] == 'c':
        f[name] = new


def _refine_into(test, val: bool, f: dict):
    if isinstance(test, ast.UnaryOp) and isinstance(test.op, ast.Not):
        _refine_into(test.operand, not val, f)
    elif isinstance(test, ast.Name):
        _set(f, test.id, TRUTHY if val else FALSY)
    elif isinstance(test, ast.NamedExpr) and isinstance(test.target, ast.Name):
        _set(f, test.target.id, TRUTHY if val else FALSY)
        _refine_into(test.value, val, f)
    elif isinstance(test, ast.BoolOp):
        if isinstance(test.op, ast.And) and val:
            for v in test.values:
                _refine_into(v, True, f)
        elif isinstance(test.op, ast.Or) and not val:
            for v in test.values:
                _refine_into(v, False, f)
    elif isinstance(test, ast.Call) and isinstance(test.func, ast.Name) and test.func.id == 'isinstance' and val and \
            len(test.args) == 2 and isinstance(test.args[0], ast.Name):
        _set(f, test.args[0].id, NOTNONE)       # an instance of a class is not None
    elif isinstance(test, ast.Compare) and len(test.ops) == 1:
        left = test.left
        if isinstance(left, ast.NamedExpr):
            left = left.target
        if isinstance(left, ast.Name) and isinstance(test.comparators[0], ast.Constant):
            c = test.comparators[0].value
            op = test.ops[0]
            if isinstance(op, (ast.Is, ast.IsNot, ast.Eq, ast.NotEq)) and (c is None or isinstance(c, (bool, int, str))):
                eq = val if isinstance(op, (ast.Is, ast.Eq)) else not val
                if eq:
                    f[left.id] = lit(c)
                elif c is None:
                    _set(f, left.id, NOTNONE)
                elif c is True and isinstance(op, (ast.Is, ast.IsNot)):
                    pass
                elif c is False and f.get(left.id) is None:
                    pass


def _assign_targets(st):
    """[(target, value or None)] for bindings performed when CFG node statement `st` is evaluated."""
    out = []
    if isinstance(st, ast.Assign):
        for t in st.targets:
            out.append((t, st.value))
    elif isinstance(st, ast.AnnAssign) and st.value is not None:
        out.append((st.target, st.value))
    elif isinstance(st, ast.AugAssign):
        out.append((st.target, None))
    return out


class ConstFlow:
    """Forward constant propagation over one function CFG with a bounded *disjunctive* state (set of fact sets), which keeps
    correlated branches apart (`if sep: x = None` ... `if sep: if x is not None:`).
    Result: per node the list of fact dicts under which it is reachable; a node with no entry is infeasible."""

    MAX_DISJ = 16

    def __init__(self, cfg: CFG, params_consts: dict, hook=None, keep_names=()):
        """hook(node, facts) -> {pseudo-var: abstract value} | None : lets a rule carry its own typestate (names starting
        with '$') through the same path-sensitive flow; the update applies to the normal out-edges of the node only."""
        self.cfg = cfg
        self.hook = hook
        self.keep = set(keep_names)
        self._forgot: dict = {}
        init = {}
        for k, v in (params_consts or {}).items():
            if isinstance(v, tuple) and v and v[0] in ('c', 'truthy', 'falsy', 'notnone'):
                init[k] = v
            else:
                init[k] = lit(v)
        # only facts about names that a test, a conditional expression or a call argument reads can matter
        pre = getattr(cfg, '_cp_pre', None)
        if pre is None:
            relevant = set()
            walrus, stores = {}, {}
            for n in cfg.nodes:
                w, st = [], []
                for e in cfg.node_exprs(n):
                    if n.kind == 'test':
                        for x in ast.walk(e):
                            if isinstance(x, ast.Name):
                                relevant.add(x.id)
                    for x in ast.walk(e):
                        if isinstance(x, ast.NamedExpr) and isinstance(x.target, ast.Name):
                            w.append((x.target.id, x.value))
                        elif isinstance(x, ast.IfExp):
                            for y in ast.walk(x.test):
                                if isinstance(y, ast.Name):
                                    relevant.add(y.id)
                        elif isinstance(x, ast.Call):
                            for a in list(x.args) + [k.value for k in x.keywords]:
                                for y in ast.walk(a):
                                    if isinstance(y, ast.Name):
                                        relevant.add(y.id)
                        elif isinstance(x, ast.Name) and isinstance(x.ctx, ast.Store):
                            st.append(x.id)
                walrus[n.id] = w
                stores[n.id] = st
            # values copied into a relevant name are relevant too (x = cut; if x: ...)
            changed = True
            while changed:
                changed = False
                for n in cfg.nodes:
                    if n.kind == 'stmt' and isinstance(n.ast, (ast.Assign, ast.AnnAssign)) and n.ast.value is not None:
                        tgs = n.ast.targets if isinstance(n.ast, ast.Assign) else [n.ast.target]
                        if any(isinstance(t, ast.Name) and t.id in relevant for t in tgs):
                            for y in ast.walk(n.ast.value):
                                if isinstance(y, ast.Name) and y.id not in relevant:
                                    relevant.add(y.id)
                                    changed = True
                for nid, w in walrus.items():
                    for tname, val in w:
                        if tname in relevant:
                            for y in ast.walk(val):
                                if isinstance(y, ast.Name) and y.id not in relevant:
                                    relevant.add(y.id)
                                    changed = True
            # liveness of "decision reads": a fact about v is only worth keeping on an edge into node s if some test,
            # conditional expression or call argument can still read v from s on before v is rebound
            uses, defs = {}, {}
            for n in cfg.nodes:
                u, d = set(), set()
                for e in cfg.node_exprs(n):
                    if n.kind == 'test':
                        u |= {x.id for x in ast.walk(e) if isinstance(x, ast.Name) and isinstance(x.ctx, ast.Load)}
                    for x in ast.walk(e):
                        if isinstance(x, ast.IfExp):
                            u |= {y.id for y in ast.walk(x.test) if isinstance(y, ast.Name)}
                        elif isinstance(x, ast.Call):
                            for a in list(x.args) + [k.value for k in x.keywords]:
                                u |= {y.id for y in ast.walk(a) if isinstance(y, ast.Name)}
                        elif isinstance(x, ast.Name) and isinstance(x.ctx, (ast.Store, ast.Del)):
                            d.add(x.id)
                    # a copy `v = w` keeps w alive as long as v is (handled conservatively: w is a use)
                    if n.kind == 'stmt' and isinstance(n.ast, (ast.Assign, ast.AnnAssign)) and n.ast.value is not None:
                        tg = n.ast.targets if isinstance(n.ast, ast.Assign) else [n.ast.target]
                        if any(isinstance(t, ast.Name) and t.id in relevant for t in tg):
                            u |= {y.id for y in ast.walk(n.ast.value) if isinstance(y, ast.Name)}
                if n.kind == 'iter':
                    d |= {x.id for x in ast.walk(n.ast.target) if isinstance(x, ast.Name)}
                if n.kind == 'except' and n.ast.name:
                    d.add(n.ast.name)
                uses[n.id], defs[n.id] = u & relevant, d
            live_in = {n.id: set(uses[n.id]) for n in cfg.nodes}
            preds = cfg.preds()
            work = [n.id for n in cfg.nodes]
            while work:
                i = work.pop()
                out = set()
                for lab, sx in cfg.nodes[i].succ:
                    out |= live_in[sx]
                new = uses[i] | (out - defs[i])
                if new != live_in[i]:
                    live_in[i] = new
                    for lab, pid in preds[i]:
                        work.append(pid)
            pre = cfg._cp_pre = (relevant, walrus, stores, live_in)
        self.relevant = set(pre[0]) | set(init) | self.keep
        self._walrus, self._stores, self._live_in = pre[1], pre[2], pre[3]
        self.ins = solve(cfg, frozenset({frozenset(init.items())}), self._transfer, self._join)

    def all_facts(self, node_id) -> list[dict]:
        s = self.ins.get(node_id)
        return [] if s is None else [dict(d) for d in s]

    def facts(self, node_id) -> dict | None:
        """Facts that hold on *every* feasible path to the node (None if infeasible)."""
        s = self.ins.get(node_id)
        if not s:
            return None
        it = iter(s)
        common = set(next(it))
        for d in it:
            common &= d
        return dict(common)

    def feasible(self, node_id) -> bool:
        return bool(self.ins.get(node_id))

    def _join(self, a, b):
        tgt = getattr(self.cfg, '_join_target', None)
        forgot = self._forgot.setdefault(tgt, set())
        u = a | b
        if forgot:
            u = frozenset(frozenset(x for x in d if x[0] not in forgot) for d in u)
        if len(u) <= self.MAX_DISJ:
            return u
        # too many disjuncts: forget variables one at a time (always sound -- fewer facts), each time the variable whose
        # removal collapses the most disjuncts; the rule's own typestate ($-facts) and the names a rule asked to keep are
        # never forgotten.  The choice is sticky per node, which makes the widening monotone (termination).
        cur = set(u)
        while len(cur) > self.MAX_DISJ:
            names = set()
            for d in cur:
                for k, _ in d:
                    if k[:1] != '$' and k not in self.keep:
                        names.add(k)
            if not names:
                break
            best, best_set = None, None
            for nm in sorted(names):
                proj = {frozenset(x for x in d if x[0] != nm) for d in cur}
                if best_set is None or len(proj) < len(best_set):
                    best, best_set = nm, proj
            forgot.add(best)
            cur = best_set
        return frozenset(cur)

    def _transfer(self, node, state):
        outs: dict = {}
        for d in state:
            r = self._transfer1(node, d)
            if not isinstance(r, dict):
                r = {'*': r}
            for lab, v in r.items():
                if v is None:
                    outs.setdefault(lab, set())
                elif isinstance(v, list):
                    outs.setdefault(lab, set()).update(v)
                else:
                    outs.setdefault(lab, set()).add(v)
        res = {}
        star = outs.get('*')
        live_by_lab = {}
        for lab, sx in node.succ:
            live_by_lab.setdefault(lab, set()).update(self._live_in[sx])
        for lab in ('true', 'false', 'exc', 'next', 'loop'):
            src = outs[lab] if lab in outs else star
            if src is None:
                continue
            if lab not in live_by_lab:
                continue
            live = live_by_lab[lab]
            keep = self.keep
            res[lab] = frozenset(frozenset(x for x in d if x[0] in live or x[0][:1] == '$' or x[0] in keep) for d in src) or None
        return res

    def _norm(self, facts: dict):
        return frozenset((k, v) for k, v in facts.items() if k in self.relevant or k[:1] == '$')

    def _transfer1(self, node, state):
        r = self._transfer2(node, state)
        if self.hook is not None:
            upd = self.hook(node, dict(state))
            if upd:
                def app(fs, u):
                    if fs is None or not u:
                        return fs
                    if isinstance(fs, list):
                        return [app(x, u) for x in fs]
                    d = dict(fs)
                    for k, v in u.items():
                        if v is None:
                            d.pop(k, None)
                        else:
                            d[k] = v
                    return frozenset(d.items())
                per_edge = upd.get('@edges') if isinstance(upd, dict) else None
                if not isinstance(r, dict):
                    r = {'exc': r, '*': r}
                if per_edge is not None:
                    # {'true': {...}, 'false': {...}}: the effect depends on the outcome of the test (callee's return value)
                    star = r.get('*')
                    out = {}
                    for lab in ('true', 'false', 'next', 'loop'):
                        base = r.get(lab, star)
                        if base is not None or lab in r:
                            out[lab] = app(base, per_edge.get(lab, per_edge.get('*', {})))
                    out['exc'] = r.get('exc')
                    r = out
                else:
                    r = {lab: (v if lab == 'exc' else app(v, upd)) for lab, v in r.items()}
        return r

    def _transfer2(self, node, state):
        facts = dict(state)
        cfg = self.cfg
        pre = self._norm(facts)
        if node.kind == 'test':
            test = node.ast
            self._bind_walrus_n(node, facts)
            out = {'exc': pre}
            for lab, val in (('true', True), ('false', False)):
                rs = refine_multi(test, val, facts)
                out[lab] = [self._norm(r) for r in rs] if rs else None
            out['next'] = self._norm(facts)
            return out
        if node.kind == 'iter':
            f2 = dict(facts)
            for x in ast.walk(node.ast.target):
                if isinstance(x, ast.Name):
                    f2.pop(x.id, None)
            self._bind_walrus_n(node, f2)
            it = eval_expr(node.ast.iter, facts)
            res = {'exc': pre, 'true': self._norm(f2), 'false': self._norm(f2)}
            if truth(it) is False:
                res['true'] = None
            return res
        if node.kind in ('with', 'case', 'except'):
            f2 = dict(facts)
            for nm in self._stores[node.id]:
                f2.pop(nm, None)
            if node.kind == 'except' and node.ast.name:
                f2.pop(node.ast.name, None)
            return {'exc': pre, '*': self._norm(f2)}
        if node.kind == 'stmt':
            st = node.ast
            f2 = dict(facts)
            if isinstance(st, (ast.FunctionDef, ast.AsyncFunctionDef, ast.ClassDef)):
                f2.pop(st.name, None)
                return {'exc': pre, '*': self._norm(f2)}
            self._bind_walrus_n(node, f2)
            for t, v in _assign_targets(st):
                if isinstance(t, ast.Name):
                    av = eval_expr(v, f2) if v is not None else None
                    if av is None:
                        f2.pop(t.id, None)
                    else:
                        f2[t.id] = av
                else:
                    for x in ast.walk(t):
                        if isinstance(x, ast.Name) and isinstance(x.ctx, ast.Store):
                            f2.pop(x.id, None)
            if isinstance(st, ast.Delete):
                for t in st.targets:
                    if isinstance(t, ast.Name):
                        f2.pop(t.id, None)
            return {'exc': pre, '*': self._norm(f2)}
        return pre

    def _bind_walrus_n(self, node, facts):
        for tname, val in self._walrus[node.id]:
            av = eval_expr(val, facts)
            if av is None:
                facts.pop(tname, None)
            else:
                facts[tname] = av

    @staticmethod
    def _bind_walrus(e, facts):
        for x in ast.walk(e):
            if isinstance(x, ast.NamedExpr) and isinstance(x.target, ast.Name):
                av = eval_expr(x.value, facts)
                if av is None:
                    facts.pop(x.target.id, None)
                else:
                    facts[x.target.id] = av
