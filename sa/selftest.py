"""Self-test of the checkers (thorough tier): every rule module is run against *variants of the current tree* built in memory.

Two sources of variants, both committed under /verif:
  * /verif/selftest/mutants.json - hand written single-site substitutions {property, id, module, old, new, expect, note}; `expect`
    is a rule id (the variant breaks the property: the named rule must report it) or "silent" (a behaviour-preserving rewrite: the
    property's rules must report nothing new - the guard against brittle, text-matching rules).
  * /verif/known_findings.json `fixed:` lines - the sources of /repo just before each repair commit (read from git history with
    `git show`, nothing is checked out); the rule that found the defect must report it there.
  * /verif/seeded/<id>/patch.diff + meta.json - the confirmed behaviour-breaking changes written by independent agents; meta.json
    records which rule ids caught them when they were confirmed ("caught_by"), or that they are a documented miss.

Nothing is executed from /repo and nothing is written there: variants exist only as strings handed to the source model.
A variant whose anchor text no longer occurs in the tree is reported as `stale` (the tree moved on), never as killed.
"""
from __future__ import annotations

import glob
import json
import os
import re

from .model import Repo

HERE = os.path.dirname(os.path.dirname(os.path.abspath(__file__)))
MUTANTS = os.path.join(HERE, 'selftest', 'mutants.json')
SEEDED = os.path.join(HERE, 'seeded')


class PatchError(Exception):
    pass


def apply_unified_diff(sources: dict[str, str], diff: str) -> dict[str, str]:
    """Apply a git unified diff to {module name: text}.  Hunks are located by their context (line numbers are hints only)."""
    out = dict(sources)
    cur = None
    hunks: dict[str, list] = {}
    for line in diff.split('\n'):
        if line.startswith('+++ '):
            m = re.match(r'\+\+\+ b/src/fst/(\w+)\.py', line)
            cur = m.group(1) if m else None
            continue
        if line.startswith('--- ') or line.startswith('diff ') or line.startswith('index '):
            continue
        if line.startswith('@@'):
            if cur is not None:
                m = re.match(r'@@ -(\d+)', line)
                hunks.setdefault(cur, []).append([int(m.group(1)), [], []])
            continue
        if cur is None or cur not in hunks:
            continue
        h = hunks[cur][-1]
        if line.startswith('+'):
            h[2].append(line[1:])
        elif line.startswith('-'):
            h[1].append(line[1:])
        elif line.startswith(' ') or line == '':
            h[1].append(line[1:])
            h[2].append(line[1:])
        elif line.startswith('\\'):
            pass
    for mod, hs in hunks.items():
        if mod not in out:
            raise PatchError(f'module {mod} not in tree')
        lines = out[mod].split('\n')
        delta = 0
        for start, old, new in hs:
            # drop trailing empty context lines artefact of splitting
            while old and new and old[-1] == '' and new[-1] == '':
                old, new = old[:-1], new[:-1]
            pos = None
            guess = start - 1 + delta
            for off in sorted(range(-400, 401), key=abs):
                i = guess + off
                if 0 <= i <= len(lines) - len(old) and lines[i:i + len(old)] == old:
                    pos = i
                    break
            if pos is None:
                raise PatchError(f'hunk at {mod}:{start} does not match the tree')
            lines[pos:pos + len(old)] = new
            delta += len(new) - len(old)
        out[mod] = '\n'.join(lines)
    return out


def load_variants(prop: str):
    """[(id, kind, payload, expect, note)] for one property.  kind: 'subst' payload=(module, old, new); 'patch' payload=diff text."""
    out = []
    if os.path.exists(MUTANTS):
        with open(MUTANTS) as f:
            for m in json.load(f)['mutants']:
                if m['property'] == prop:
                    out.append((m['id'], 'subst', (m['module'], m['old'], m['new']), m['expect'], m.get('note', '')))
    # repaired defects: the tree just before each `fix:` commit must still be reported by the rule that found it
    known_p = os.path.join(HERE, 'known_findings.json')
    if os.path.exists(known_p):
        with open(known_p) as f:
            for line in json.load(f).get('fixed', []):
                m = re.match(r'fixed: property=(C\d\d) ([0-9a-f]{7,40}) (.*)', line, re.S)
                if not m or m.group(1) != prop:
                    continue
                r = re.search(r'\b(R\d+\.\d+[a-z]?)\b', m.group(3))
                if r:
                    out.append((f'before-fix/{m.group(2)}', 'rev', m.group(2) + '^', r.group(1), m.group(3)[:80]))
    for d in sorted(glob.glob(os.path.join(SEEDED, '*'))):
        meta_p, patch_p = os.path.join(d, 'meta.json'), os.path.join(d, 'patch.diff')
        if not (os.path.exists(meta_p) and os.path.exists(patch_p)):
            continue
        with open(meta_p) as f:
            meta = json.load(f)
        for cb in meta.get('caught_by', []):
            if cb['property'] == prop:
                with open(patch_p) as f:
                    out.append(('seeded/' + os.path.basename(d), 'patch', f.read(), cb['rules'][0], meta.get('summary', '')))
    # behaviour-preserving refactorings written by independent engineers (round 4): every check has to stay silent on each of them
    # (replayed for the properties anchored in a file the patch touches; tools_memtest.py refactors/* runs the full matrix)
    anchored = set()
    try:
        with open(os.path.join(HERE, 'properties.jsonl')) as f:
            for line in f:
                pj = json.loads(line)
                if pj.get('id') == prop:
                    anchored = {os.path.basename(x) for x in pj.get('anchors', {}).get('files', [])}
    except OSError:
        pass
    for d in sorted(glob.glob(os.path.join(HERE, 'refactors', '*'))):
        patch_p = os.path.join(d, 'patch.diff')
        if os.path.exists(patch_p):
            with open(patch_p) as f:
                txt = f.read()
            touched = {os.path.basename(m) for m in re.findall(r'^\+\+\+ b/(\S+)', txt, re.M)}
            if touched & anchored:
                out.append(('refactor/' + os.path.basename(d), 'patch', txt, 'silent', 'behaviour-preserving refactoring'))
    # known findings with a written (uncommittable) repair: on the repaired tree the finding must be gone and nothing new reported
    for p in sorted(glob.glob(os.path.join(HERE, 'findings', f'{prop}-*-candidate-fix.diff'))):
        rule = os.path.basename(p).split('-')[1]
        with open(p) as f:
            out.append(('repaired/' + os.path.basename(p), 'patch', f.read(), 'gone:' + rule, 'candidate repair of a known finding'))
    return out


def _run_variant(args):
    prop, rule_module_name, kind, payload, base_keys = args
    import importlib
    from . import engine
    src = Repo.read_sources()
    try:
        if kind == 'rev':
            import subprocess
            from .model import REPO, PKG_DIR
            ls = subprocess.run(['git', '-C', REPO, 'ls-tree', '--name-only', payload, PKG_DIR + '/'], capture_output=True, text=True)
            if ls.returncode != 0 or not ls.stdout.strip():
                return 'stale', []          # history not available (shallow / exported tree)
            src = {}
            for n in ls.stdout.split():
                if n.endswith('.py'):
                    src[os.path.basename(n)[:-3]] = subprocess.run(['git', '-C', REPO, 'show', f'{payload}:{n}'], capture_output=True, text=True).stdout
        elif kind == 'subst':
            module, old, new = payload
            if src[module].count(old) < 1:
                return 'stale', []
            src[module] = src[module].replace(old, new, 1)
        else:
            src = apply_unified_diff(src, payload)
    except PatchError:
        return 'stale', []
    except KeyError:
        return 'stale', []
    mod = importlib.import_module(rule_module_name)
    old_jobs = os.environ.get('PFST_VERIF_JOBS')
    os.environ['PFST_VERIF_JOBS'] = '1'          # no nested worker pools
    try:
        try:
            variant = Repo(src)
        except Exception:
            return 'stale', []           # the variant does not even parse any more (its context was edited since it was written)
        code, ctx = engine.run_property(prop, mod, 'quick', repo=variant, write=False, quiet=True)
    finally:
        if old_jobs is None:
            os.environ.pop('PFST_VERIF_JOBS', None)
        else:
            os.environ['PFST_VERIF_JOBS'] = old_jobs
    if ctx is None:
        return 'error', []
    base_sigs = {engine.key_signature(k) for k in base_keys}

    def in_base(k):
        return k in base_keys or engine.key_signature(k) in base_sigs
    new = [(f.rule, f.key) for f in ctx.findings if not in_base(f.key)]
    new += [('still:' + f.rule, f.key) for f in ctx.findings if in_base(f.key)]
    return 'ok', new


def run_selftest(prop: str, rule_module, repo: Repo, base_keys=frozenset()) -> dict:
    from .engine import parallel_map
    variants = load_variants(prop)
    res = {'run': 0, 'killed': 0, 'survived': [], 'invalid': [], 'stale': [], 'silent_ok': 0, 'false_alarms': [], 'by_rule': {}}
    if not variants:
        return res
    jobs = [(prop, rule_module.__name__, kind, payload, base_keys) for _, kind, payload, _, _ in variants]
    outs = parallel_map(_run_variant, jobs, min_items=2)
    for (vid, kind, payload, expect, note), (status, new) in zip(variants, outs):
        still = {r[6:] for r, _ in new if r.startswith('still:')}
        new = [(r, k) for r, k in new if not r.startswith('still:')]
        if expect.startswith('gone:') and status == 'ok':
            res['run'] += 1
            if expect[5:] in still or new:
                res['false_alarms'].append(f'{vid}: repaired tree still reported {sorted(still | {r for r, _ in new})}')
            else:
                res['silent_ok'] += 1
            continue
        if kind == 'rev' and status == 'ok':
            res['refound'] = res.get('refound', 0) + (1 if expect in {r for r, _ in new} else 0)
        if status == 'stale':
            res['stale'].append(vid)
            continue
        res['run'] += 1
        if status == 'error':
            # the variant removed an anchor: reported as analysis-broken, which is a (coarse) detection, not silence
            if expect == 'silent':
                res['false_alarms'].append(vid + ' (analysis error)')
            else:
                res['killed'] += 1
                res['by_rule'].setdefault('ANALYSIS-ERROR', []).append(vid)
            continue
        rules = sorted({r for r, _ in new})
        if expect == 'silent':
            if new:
                res['false_alarms'].append(f'{vid}: {rules}')
            else:
                res['silent_ok'] += 1
        elif expect in rules or (expect.endswith('*') and any(r.startswith(expect[:-1]) for r in rules)):
            res['killed'] += 1
            res['by_rule'].setdefault(expect, []).append(vid)
        elif rules:
            res['killed'] += 1
            res['by_rule'].setdefault(rules[0], []).append(vid + f' (expected {expect})')
        else:
            res['survived'].append(vid)
    return res
