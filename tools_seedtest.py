#!/venv/bin/python
"""Development helper: apply each seeded change to /repo, run every claimed check, report which checks fire, revert.
usage: tools_seedtest.py [seed dir ...]   (default: /verif/seeded/*)"""
import glob, json, os, subprocess, sys
dirs = sys.argv[1:] or sorted(glob.glob('/verif/seeded/*'))
man = json.load(open('/verif/MANIFEST.json'))
props = [c['property_id'] for c in man['checks']]
assert subprocess.run(['git', '-C', '/repo', 'status', '--porcelain', '--untracked-files=no'], capture_output=True, text=True).stdout.strip() == '', '/repo not clean'
for d in dirs:
    patch = os.path.join(d, 'patch.diff')
    if not os.path.exists(patch):
        continue
    r = subprocess.run(['git', '-C', '/repo', 'apply', patch], capture_output=True, text=True)
    if r.returncode:
        print(d, 'PATCH DOES NOT APPLY', r.stderr[:200]); continue
    fired = []
    try:
        from concurrent.futures import ThreadPoolExecutor
        env = dict(os.environ, PFST_VERIF_NOWRITE='1', PFST_VERIF_JOBS='4')
        with ThreadPoolExecutor(12) as ex:
            results = list(ex.map(lambda p: subprocess.run(['/venv/bin/python', '/verif/check', p, '--tier', 'quick'], capture_output=True,
                                                           text=True, env=env), props))
        for p, rr in zip(props, results):
            if rr.returncode == 1:
                fs = [l for l in rr.stdout.split('\n') if l.startswith('FINDING')]
                rules = sorted({l.split('rule=')[1].split()[0] for l in fs if 'rule=' in l})
                fired.append((p, len(fs), ','.join(rules) + ' ' + (fs[0][:220] if fs else '')))
            elif rr.returncode != 0:
                fired.append((p, -1, 'ANALYSIS-ERROR ' + rr.stdout[-300:].replace('\n', ' | ')))
    finally:
        subprocess.run(['git', '-C', '/repo', 'checkout', '--', '.'])
    print(d, '->', 'MISSED' if not fired else '')
    for p, n, f in fired:
        print('    ', p, n, f)
