#!/venv/bin/python
"""Run every claimed check against the sources of an older /repo commit (in memory) and list the rules that report."""
import sys, os, json, importlib, subprocess
sys.path.insert(0, '/verif')
os.environ['PFST_VERIF_NOWRITE'] = '1'
from sa.model import Repo
from sa import engine
rev = sys.argv[1]
names = subprocess.run(['git', '-C', '/repo', 'ls-tree', '--name-only', rev, 'src/fst/'], capture_output=True, text=True).stdout.split()
src = {}
for n in names:
    if n.endswith('.py'):
        src[os.path.basename(n)[:-3]] = subprocess.run(['git', '-C', '/repo', 'show', f'{rev}:{n}'], capture_output=True, text=True).stdout
man = json.load(open('/verif/MANIFEST.json'))
props = [c['property_id'] for c in man['checks']]
known = {k['key'] for k in engine.load_known().get('findings', [])}
def run(prop):
    os.environ['PFST_VERIF_JOBS'] = '1'
    mod = importlib.import_module('sa.rules.' + prop.lower())
    code, ctx = engine.run_property(prop, mod, 'quick', repo=Repo(src), write=False, quiet=True)
    if ctx is None:
        return prop, 'ERR', []
    return prop, code, [f.text()[:260] for f in ctx.findings if f.key not in known]
for prop, code, fs in engine.parallel_map(run, props, min_items=2):
    print('==', prop, 'exit', code, len(fs))
    for f in fs:
        print('    ', f)
