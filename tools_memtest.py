#!/venv/bin/python
"""usage: memtest.py <seed dir>...   -- apply patch.diff in memory and run every claimed check; print which rules report"""
import sys, os, json, importlib
sys.path.insert(0, '/verif')
os.environ['PFST_VERIF_NOWRITE'] = '1'
from sa.model import Repo
from sa import engine, selftest
man = json.load(open('/verif/MANIFEST.json'))
props = [c['property_id'] for c in man['checks']]
if os.environ.get('PFST_MEMTEST_PROPS'):
    props = [p for p in props if p in os.environ['PFST_MEMTEST_PROPS'].split(',')]
base = Repo.read_sources()
known = {k['key'] for k in engine.load_known().get('findings', [])}
known |= {engine.key_signature(k) for k in known}

def run(args):
    d, prop = args
    os.environ['PFST_VERIF_JOBS'] = '1'
    try:
        src = selftest.apply_unified_diff(base, open(os.path.join(d, 'patch.diff')).read())
    except selftest.PatchError as e:
        return ('PATCH', str(e))
    mod = importlib.import_module('sa.rules.' + prop.lower())
    try:
        variant = Repo(src)
    except Exception as e:
        return ('PATCH', f'patched tree does not load: {e}')
    code, ctx = engine.run_property(prop, mod, 'quick', repo=variant, write=False, quiet=True)
    if ctx is None:
        return ('ERR', '')
    new = [f for f in ctx.findings if f.key not in known and engine.key_signature(f.key) not in known]
    return ('OK', sorted({f.rule for f in new}), [f.text()[:230] for f in new][:2])

jobs = [(d, p) for d in sys.argv[1:] for p in props]
res = engine.parallel_map(run, jobs, min_items=2)
cur = None
for (d, p), r in zip(jobs, res):
    if d != cur:
        cur = d
        print('==', d)
    if r[0] == 'OK' and r[1]:
        print('   ', p, r[1], r[2][0])
    elif r[0] != 'OK':
        print('   ', p, r)
